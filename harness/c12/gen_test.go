package c12

import (
	"math/big"

	"pgregory.net/rapid"
)

// genConfig selects the shape of generated cases.
type genConfig struct {
	Mode    string
	Params  []string
	Natives []string
	MaxOps  int
}

func pow2(n uint) *big.Int { return new(big.Int).Lsh(big.NewInt(1), n) }

func drawBig(t *rapid.T, bits int, label string) *big.Int {
	if bits <= 0 {
		return new(big.Int)
	}
	n := (bits + 7) / 8
	b := rapid.SliceOfN(rapid.Byte(), n, n).Draw(t, label)
	v := new(big.Int).SetBytes(b)
	return v.Mod(v, pow2(uint(bits)))
}

func limbsOf(v *big.Int, ps *paramSet) []string {
	l := make([]*big.Int, ps.N)
	for i := range l {
		l[i] = new(big.Int)
	}
	t := new(big.Int).Set(v)
	mask := new(big.Int).Sub(pow2(ps.W), big.NewInt(1))
	for i := range l {
		l[i].And(t, mask)
		t.Rsh(t, ps.W)
	}
	// whatever does not fit goes on top of the last limb (used for deliberately too wide witnesses)
	if t.Sign() != 0 {
		l[len(l)-1].Add(l[len(l)-1], t.Lsh(t, ps.W))
	}
	r := make([]string, len(l))
	for i := range l {
		r[i] = l[i].String()
	}
	return r
}

// drawValue draws an integer in [0, 2^bitlen(q)) from a boundary-biased distribution; values >= q are
// non-canonical representations a witness can carry.
func drawValue(t *rapid.T, ps *paramSet, label string) (*big.Int, string) {
	q := ps.Q
	width := pow2(uint(q.BitLen()))
	kind := rapid.SampledFrom([]string{"zero", "one", "small", "small", "q-1", "q", "q+small", "max", "maxlow", "rand", "rand",
		"rand", "noncanon", "square", "pow2", "half"}).Draw(t, label+"-class")
	var v *big.Int
	switch kind {
	case "zero":
		v = new(big.Int)
	case "one":
		v = big.NewInt(1)
	case "small":
		v = big.NewInt(int64(rapid.IntRange(2, 70000).Draw(t, label)))
	case "q-1":
		v = new(big.Int).Sub(q, big.NewInt(1))
	case "q":
		v = new(big.Int).Set(q)
	case "q+small":
		v = new(big.Int).Add(q, big.NewInt(int64(rapid.IntRange(1, 1000).Draw(t, label))))
	case "max":
		v = new(big.Int).Sub(width, big.NewInt(1))
	case "maxlow":
		// all low limbs maximal, canonical: top limb one below the modulus' top limb
		top := new(big.Int).Rsh(q, ps.W*(ps.N-1))
		if top.Sign() > 0 {
			top.Sub(top, big.NewInt(1))
		}
		v = new(big.Int).Lsh(top, ps.W*(ps.N-1))
		v.Add(v, new(big.Int).Sub(pow2(ps.W*(ps.N-1)), big.NewInt(1)))
	case "rand":
		v = drawBig(t, q.BitLen()+8, label)
		v.Mod(v, q)
	case "noncanon":
		v = drawBig(t, q.BitLen()+8, label)
		v.Mod(v, new(big.Int).Sub(width, q))
		v.Add(v, q)
	case "square":
		v = drawBig(t, q.BitLen()+8, label)
		v.Mul(v, v)
		v.Mod(v, q)
	case "pow2":
		v = pow2(uint(rapid.IntRange(0, q.BitLen()-1).Draw(t, label)))
	case "half":
		v = new(big.Int).Rsh(q, 1)
	}
	if v.Cmp(width) >= 0 {
		v.Mod(v, width)
	}
	return v, kind
}

func drawInput(t *rapid.T, ps *paramSet, allowWide bool, label string) Input {
	k := rapid.IntRange(0, 99).Draw(t, label+"-kind")
	switch {
	case k < 62:
		v, _ := drawValue(t, ps, label)
		if allowWide && rapid.IntRange(0, 39).Draw(t, label+"-wide") == 0 {
			// a witness whose top limb exceeds the modulus width (or BitsPerLimb)
			v = new(big.Int).Add(v, pow2(uint(ps.Q.BitLen())))
		}
		return Input{Kind: "w", Limbs: limbsOf(v, ps)}
	case k < 90:
		c := rapid.SampledFrom([]string{"0", "1", "2", "3", "small", "q-1", "q", "q+1", "rand", "limb-1", "limb", "twolimb", "q-low", "q-low2"}).Draw(t, label+"-const")
		var v *big.Int
		switch c {
		case "small":
			v = big.NewInt(int64(rapid.IntRange(2, 70000).Draw(t, label)))
		case "q-1":
			v = new(big.Int).Sub(ps.Q, big.NewInt(1))
		case "q":
			v = new(big.Int).Set(ps.Q)
		case "q+1":
			v = new(big.Int).Add(ps.Q, big.NewInt(1))
		case "rand":
			v = drawBig(t, ps.Q.BitLen()+8, label)
			v.Mod(v, ps.Q)
		case "q-low":
			// the low limb(s) of the modulus: a short element that must not be mistaken for the modulus
			v = new(big.Int).Mod(ps.Q, pow2(ps.W))
		case "q-low2":
			v = new(big.Int).Mod(ps.Q, pow2(2*ps.W))
		case "limb-1":
			v = new(big.Int).Sub(pow2(ps.W), big.NewInt(1))
		case "limb":
			v = pow2(ps.W)
		case "twolimb":
			v = new(big.Int).Sub(pow2(2*ps.W), big.NewInt(1))
		default:
			v = bigOf(c)
		}
		return Input{Kind: "c", Val: v.String()}
	case k < 93:
		return Input{Kind: "zero"}
	case k < 97:
		return Input{Kind: "one"}
	default:
		return Input{Kind: "mod"}
	}
}

// pick draws a pool index biased towards recent elements.
func pick(t *rapid.T, n int, label string) int {
	if n <= 1 {
		return 0
	}
	if rapid.IntRange(0, 2).Draw(t, label+"-recent") != 0 {
		back := rapid.IntRange(0, 3).Draw(t, label+"-back")
		if back < n {
			return n - 1 - back
		}
	}
	return rapid.IntRange(0, n-1).Draw(t, label)
}

var opWeights = []struct {
	op string
	w  int
}{
	{"Add", 10}, {"Sub", 9}, {"Neg", 3}, {"Mul", 10}, {"MulMod", 2}, {"MulNoReduce", 5}, {"MulConst", 8}, {"Sum", 4},
	{"Div", 4}, {"Inverse", 3}, {"Sqrt", 3}, {"Exp", 1}, {"Eval", 3}, {"Reduce", 4}, {"ReduceStrict", 3},
	{"Select", 3}, {"Lookup2", 2}, {"Mux", 2}, {"FromBits", 2}, {"BitsRoundTrip", 1}, {"ToBits", 3}, {"ToBitsCanonical", 2},
	{"IsZero", 3}, {"AssertIsEqual", 4}, {"AssertIsDifferent", 2}, {"AssertIsInRange", 3}, {"AssertIsLessOrEqual", 2},
	{"PUMP", 6}, {"SHORT", 5}, {"STRICTSEL", 6},
}

func drawOpName(t *rapid.T) string {
	tot := 0
	for _, w := range opWeights {
		tot += w.w
	}
	x := rapid.IntRange(0, tot-1).Draw(t, "op")
	for _, w := range opWeights {
		if x < w.w {
			return w.op
		}
		x -= w.w
	}
	return "Add"
}

func drawMulConst(t *rapid.T, maxOf int, label string) string {
	bl := 1
	switch rapid.IntRange(0, 5).Draw(t, label+"-blclass") {
	case 0:
		bl = rapid.IntRange(1, 8).Draw(t, label+"-bl")
	case 1:
		bl = rapid.IntRange(maxOf-3, maxOf).Draw(t, label+"-bl")
	case 2:
		bl = rapid.IntRange(maxOf/2-2, maxOf/2+2).Draw(t, label+"-bl")
	default:
		bl = rapid.IntRange(1, maxOf).Draw(t, label+"-bl")
	}
	if bl < 1 {
		bl = 1
	}
	if bl > maxOf {
		bl = maxOf
	}
	var v *big.Int
	switch rapid.IntRange(0, 3).Draw(t, label+"-shape") {
	case 0:
		v = new(big.Int).Sub(pow2(uint(bl)), big.NewInt(1))
	case 1:
		v = pow2(uint(bl - 1))
	default:
		v = drawBig(t, bl-1, label)
		v.Add(v, pow2(uint(bl-1)))
	}
	if rapid.IntRange(0, 24).Draw(t, label+"-zero") == 0 {
		v = new(big.Int)
	}
	return v.String()
}

// genCase draws a whole case; the model is tracked while drawing so that the
// sequence can be biased (equal operands for equality assertions, residues for
// Sqrt, a documented failure only as the last step).
func genCase(cfg genConfig) *rapid.Generator[Case] {
	return rapid.Custom(func(t *rapid.T) Case {
		ps := paramsByName(rapid.SampledFrom(cfg.Params).Draw(t, "params"))
		nat := rapid.SampledFrom(cfg.Natives).Draw(t, "native")
		nf, _ := nativeField(nat)
		maxOf := nf.Q.BitLen() - 2 - int(ps.W)
		c := Case{Params: ps.Name, Native: nat, Mode: cfg.Mode}
		engine := cfg.Mode == "engine"
		nIn := rapid.IntRange(1, 5).Draw(t, "nin")
		for i := 0; i < nIn; i++ {
			c.In = append(c.In, drawInput(t, ps, !engine, "in"))
		}
		hasW := false
		for _, in := range c.In {
			hasW = hasW || in.Kind == "w"
		}
		if !hasW {
			v, _ := drawValue(t, ps, "in-forced")
			c.In = append(c.In, Input{Kind: "w", Limbs: limbsOf(v, ps)})
		}
		nOps := rapid.IntRange(1, cfg.MaxOps).Draw(t, "nops")
		allowFail := rapid.IntRange(0, 7).Draw(t, "allow-fail") == 0
		expCount := 0
		cheapExp := int(ps.N*ps.W) <= 128 || (engine && int(ps.N*ps.W) <= 256)

		cur := func() (*static, *model) {
			st := c.analyse()
			return st, evalModel(&c, ps, st, engine, nil)
		}
		push := func(o Op) bool {
			c.Ops = append(c.Ops, o)
			st, m := cur()
			last := len(c.Ops) - 1
			if st.skip[last] || m.undef != "" || (m.failAt >= 0 && !allowFail) {
				c.Ops = c.Ops[:last]
				return false
			}
			return true
		}
		for len(c.Ops) < nOps {
			st, m := cur()
			if m.failAt >= 0 {
				break // a documented failure is the last step
			}
			n := len(m.pool)
			name := drawOpName(t)
			var exacts, sameAs []int
			for i := range m.pool {
				if st.exact[i] {
					exacts = append(exacts, i)
				}
			}
			a0 := pick(t, n, "a0")
			for i := range m.pool {
				if i != a0 && m.pool[i].v.Cmp(m.pool[a0].v) == 0 {
					sameAs = append(sameAs, i)
				}
			}
			switch name {
			case "STRICTSEL":
				// a selection (Mux / Select / Lookup2) that mixes strictly reduced elements with ONE element that is not
				// (a non-canonical witness when there is one, else an unreduced computation result), at every position
				// and with the selector mostly on it, followed by the ops whose documented result is that of the
				// canonical representative
				var noncanon []int
				for i := range c.In {
					if c.In[i].Kind == "w" && m.pool[i].exact != nil && m.pool[i].exact.Cmp(ps.Q) >= 0 {
						noncanon = append(noncanon, i)
					}
				}
				odd := a0
				if len(noncanon) > 0 && rapid.IntRange(0, 4).Draw(t, "ss-noncanon") != 0 {
					odd = rapid.SampledFrom(noncanon).Draw(t, "ss-odd")
				}
				kind := rapid.SampledFrom([]string{"Mux", "Mux", "Mux", "Select", "Lookup2"}).Draw(t, "ss-kind")
				k := 2
				switch kind {
				case "Mux":
					k = rapid.IntRange(2, 5).Draw(t, "ss-arity")
				case "Lookup2":
					k = 4
				}
				// k-1 strictly reduced companions: ReduceStrict of pool elements, or a canonical input asserted in range
				var comp []int
				okc := true
				for j := 0; j < k-1 && okc; j++ {
					x := pick(t, n, "ss-src")
					if x < len(c.In) && c.In[x].Kind == "w" && m.pool[x].exact.Cmp(ps.Q) < 0 && rapid.Bool().Draw(t, "ss-inrange") {
						okc = push(Op{Op: "AssertIsInRange", A: []int{x}})
						comp = append(comp, x)
					} else {
						_, mm := cur()
						okc = push(Op{Op: "ReduceStrict", A: []int{x}})
						comp = append(comp, len(mm.pool))
					}
				}
				if !okc {
					break
				}
				pos := rapid.SampledFrom([]int{0, k / 2, k - 1, k - 1}).Draw(t, "ss-pos") // first / middle / LAST
				as := make([]int, 0, k)
				ci := 0
				for j := 0; j < k; j++ {
					if j == pos {
						as = append(as, odd)
					} else {
						as = append(as, comp[ci])
						ci++
					}
				}
				selIdx := pos
				if rapid.IntRange(0, 3).Draw(t, "ss-other") == 0 {
					selIdx = rapid.IntRange(0, k-1).Draw(t, "ss-sel")
				}
				_, mm := cur()
				res := len(mm.pool)
				var okSel bool
				switch kind {
				case "Mux":
					okSel = push(Op{Op: "Mux", A: as, S: []int{selIdx}})
				case "Select":
					// Select returns the first operand when the selector is 1
					okSel = push(Op{Op: "Select", A: as, S: []int{1 - selIdx}})
				case "Lookup2":
					okSel = push(Op{Op: "Lookup2", A: as, S: []int{selIdx & 1, selIdx >> 1}})
				}
				if !okSel {
					break
				}
				for _, f := range rapid.SliceOfNDistinct(rapid.SampledFrom([]string{"ToBitsCanonical", "ReduceStrict", "IsZero", "AssertIsInRange",
					"AssertIsLessOrEqual", "ToBits"}), 1, 3, rapid.ID[string]).Draw(t, "ss-follow") {
					switch f {
					case "AssertIsLessOrEqual":
						push(Op{Op: f, A: []int{res, comp[0]}})
					default:
						push(Op{Op: f, A: []int{res}})
					}
				}
			case "SHORT":
				// an element on fewer limbs than the modulus (FromBits of few bits, often the low bits of the modulus),
				// then the consumers that index limbs or size hints by the operand length
				nb := rapid.SampledFrom([]int{1, int(ps.W) - 1, int(ps.W), int(ps.W), 2 * int(ps.W)}).Draw(t, "short-bits")
				if nb > int(ps.N*ps.W) {
					nb = int(ps.N * ps.W)
				}
				if nb < 1 {
					nb = 1
				}
				bs := make([]int, nb)
				ones := rapid.IntRange(0, 2).Draw(t, "short-shape")
				for j := range bs {
					if ones == 0 {
						bs[j] = 1
					} else {
						bs[j] = int(ps.Q.Bit(j))
					}
				}
				if !push(Op{Op: "FromBits", S: bs}) {
					break
				}
				x := n
				switch rapid.IntRange(0, 7).Draw(t, "short-consumer") {
				case 0:
					push(Op{Op: "IsZero", A: []int{x}})
				case 1:
					push(Op{Op: "AssertIsDifferent", A: []int{x, pick(t, n, "b")}})
				case 2:
					push(Op{Op: "AssertIsInRange", A: []int{x}})
					push(Op{Op: "ToBitsCanonical", A: []int{x}})
				case 3:
					if push(Op{Op: "Add", A: []int{x, x}}) && push(Op{Op: "Add", A: []int{x + 1, x}}) {
						push(Op{Op: "Mul", A: []int{x + 1, x + 2}})
					}
				case 4:
					push(Op{Op: "Inverse", A: []int{x}})
				case 5:
					if push(Op{Op: "MulConst", A: []int{x}, K: "3"}) && expCount == 0 && cheapExp && len(exacts) > 0 {
						if push(Op{Op: "Exp", A: []int{x + 1, rapid.SampledFrom(exacts).Draw(t, "exp-e")}}) {
							expCount++
						}
					}
				case 6:
					t0 := []int{0, 0, 0}
					push(Op{Op: "Eval", A: []int{x}, T: [][]int{t0[:rapid.IntRange(2, 3).Draw(t, "deg")], {0, 0}}, C: []int{255, 7}})
				case 7:
					push(Op{Op: "Select", A: []int{x, pick(t, n, "b")}, S: []int{rapid.IntRange(0, 1).Draw(t, "sel")}})
				}
			case "PUMP":
				// drive the overflow counter: a big constant multiplication or repeated doubling, then a consumer
				switch rapid.IntRange(0, 5).Draw(t, "pump") {
				case 4:
					// x - x: the builder folds the limbs to the padding constants (an element with constant limbs and overflow)
					push(Op{Op: "Sub", A: []int{a0, a0}})
				case 5:
					// Sum of operands at the maximal overflow
					if push(Op{Op: "MulConst", A: []int{a0}, K: new(big.Int).Sub(pow2(uint(maxOf)), big.NewInt(1)).String()}) {
						k := rapid.IntRange(2, 9).Draw(t, "sum-arity")
						as := make([]int, k)
						for j := range as {
							as[j] = n
						}
						push(Op{Op: "Sum", A: as})
					}
				case 0:
					push(Op{Op: "MulConst", A: []int{a0}, K: drawMulConst(t, maxOf, "k")})
				case 1:
					k := rapid.IntRange(2, 6).Draw(t, "doublings")
					x, cnt := a0, 0
					for j := 0; j < k; j++ {
						if push(Op{Op: "Add", A: []int{x, x}}) {
							x = n + cnt
							cnt++
						}
					}
				case 2:
					k := rapid.IntRange(3, 9).Draw(t, "sum-arity")
					as := make([]int, k)
					for j := range as {
						as[j] = a0
					}
					push(Op{Op: "Sum", A: as})
				case 3:
					if push(Op{Op: "MulNoReduce", A: []int{a0, pick(t, n, "a1")}}) {
						push(Op{Op: "MulNoReduce", A: []int{n, pick(t, n+1, "a2")}})
					}
				}
				_, m2 := cur()
				n2 := len(m2.pool)
				cons := rapid.SampledFrom([]string{"Mul", "Sub", "AssertIsEqual", "ToBits", "IsZero", "Reduce", "Add", "Div", "Select", "none"}).Draw(t, "consumer")
				switch cons {
				case "Mul", "Sub", "Add", "Div":
					x, y := n2-1, pick(t, n2, "b")
					if rapid.Bool().Draw(t, "swap") {
						x, y = y, x
					}
					push(Op{Op: cons, A: []int{x, y}})
				case "AssertIsEqual":
					push(Op{Op: "Reduce", A: []int{n2 - 1}})
					push(Op{Op: "AssertIsEqual", A: []int{n2 - 1, n2}})
				case "ToBits", "IsZero", "Reduce":
					push(Op{Op: cons, A: []int{n2 - 1}})
				case "Select":
					push(Op{Op: "Select", A: []int{n2 - 1, pick(t, n2, "b")}, S: []int{rapid.IntRange(0, 1).Draw(t, "sel")}})
				}
			case "Add", "Sub", "Mul", "MulMod", "MulNoReduce", "Div":
				push(Op{Op: name, A: []int{a0, pick(t, n, "a1")}})
			case "Neg", "Inverse", "Reduce", "ReduceStrict", "ToBits", "ToBitsCanonical", "IsZero", "BitsRoundTrip":
				push(Op{Op: name, A: []int{a0}})
			case "Sqrt":
				// prefer squares
				if big.Jacobi(m.pool[a0].v, ps.Q) != 1 && rapid.IntRange(0, 3).Draw(t, "sqrt-square") != 0 {
					if push(Op{Op: "Mul", A: []int{a0, a0}}) {
						a0 = n
					}
				}
				push(Op{Op: "Sqrt", A: []int{a0}})
			case "MulConst":
				k := drawMulConst(t, maxOf, "k")
				if rapid.IntRange(0, 7).Draw(t, "k-neg") == 0 {
					k = big.NewInt(int64(-rapid.IntRange(1, 1000).Draw(t, "k-negval"))).String()
				}
				push(Op{Op: "MulConst", A: []int{a0}, K: k})
			case "Sum":
				k := rapid.IntRange(1, 6).Draw(t, "sum-arity")
				as := []int{a0}
				for j := 1; j < k; j++ {
					as = append(as, pick(t, n, "as"))
				}
				push(Op{Op: "Sum", A: as})
			case "Exp":
				if expCount == 0 && cheapExp && len(exacts) > 0 {
					e := rapid.SampledFrom(exacts).Draw(t, "exp-e")
					if push(Op{Op: "Exp", A: []int{a0, e}}) {
						expCount++
					}
				}
			case "Eval":
				k := rapid.IntRange(1, 3).Draw(t, "eval-vars")
				if m.pool[a0].v.Sign() == 0 && st.isConst[a0] {
					break // Eval (experimental) does not handle an operand on zero limbs
				}
				as := []int{a0}
				for j := 1; j < k; j++ {
					as = append(as, pick(t, n, "as"))
				}
				maxDeg := 2
				if 3*int(ps.W)+8 <= nf.Q.BitLen()-2 {
					maxDeg = 3
				}
				nt := rapid.IntRange(1, 3).Draw(t, "eval-terms")
				o := Op{Op: "Eval", A: as}
				for j := 0; j < nt; j++ {
					d := rapid.IntRange(1, maxDeg).Draw(t, "eval-deg")
					term := make([]int, d)
					for x := range term {
						term[x] = rapid.IntRange(0, k-1).Draw(t, "eval-pos")
					}
					o.T = append(o.T, term)
					o.C = append(o.C, rapid.SampledFrom([]int{1, 1, 2, 3, 7, 0, 255}).Draw(t, "eval-coef"))
				}
				push(o)
			case "Select":
				push(Op{Op: name, A: []int{a0, pick(t, n, "a1")}, S: []int{rapid.IntRange(0, 1).Draw(t, "sel")}})
			case "Lookup2":
				push(Op{Op: name, A: []int{a0, pick(t, n, "a1"), pick(t, n, "a2"), pick(t, n, "a3")},
					S: []int{rapid.IntRange(0, 1).Draw(t, "b0"), rapid.IntRange(0, 1).Draw(t, "b1")}})
			case "Mux":
				k := rapid.IntRange(1, 5).Draw(t, "mux-arity")
				as := []int{a0}
				for j := 1; j < k; j++ {
					as = append(as, pick(t, n, "as"))
				}
				push(Op{Op: name, A: as, S: []int{rapid.IntRange(0, k-1).Draw(t, "mux-sel")}})
			case "FromBits":
				nb := rapid.SampledFrom([]int{1, int(ps.W) - 1, int(ps.W), int(ps.W) + 1, int(ps.N * ps.W), ps.Q.BitLen(),
					rapid.IntRange(1, int(ps.N*ps.W)).Draw(t, "fb-n")}).Draw(t, "fb-len")
				if nb < 1 {
					nb = 1
				}
				if nb > int(ps.N*ps.W) {
					nb = int(ps.N * ps.W)
				}
				shape := rapid.IntRange(0, 3).Draw(t, "fb-shape")
				v := drawBig(t, nb, "fb-bits")
				bs := make([]int, nb)
				for j := range bs {
					switch shape {
					case 0:
						bs[j] = 1
					case 1:
						bs[j] = int(v.Bit(j))
					case 3:
						bs[j] = int(ps.Q.Bit(j))
					}
				}
				push(Op{Op: name, S: bs})
			case "AssertIsEqual":
				b := pick(t, n, "a1")
				if len(sameAs) > 0 && rapid.IntRange(0, 9).Draw(t, "eq-any") != 0 {
					b = rapid.SampledFrom(sameAs).Draw(t, "eq-same")
				} else if m.pool[b].v.Cmp(m.pool[a0].v) != 0 && !allowFail {
					// build an equal element by another route
					if push(Op{Op: "Reduce", A: []int{a0}}) {
						b = n
					}
				}
				push(Op{Op: name, A: []int{a0, b}})
			case "AssertIsDifferent":
				b := pick(t, n, "a1")
				if len(sameAs) > 0 && allowFail && rapid.Bool().Draw(t, "diff-same") {
					b = rapid.SampledFrom(sameAs).Draw(t, "diff-eq")
				}
				push(Op{Op: name, A: []int{a0, b}})
			case "AssertIsInRange":
				if len(exacts) > 0 {
					push(Op{Op: name, A: []int{rapid.SampledFrom(exacts).Draw(t, "range-a")}})
				}
			case "AssertIsLessOrEqual":
				if len(exacts) > 0 {
					x := rapid.SampledFrom(exacts).Draw(t, "le-a")
					y := rapid.SampledFrom(exacts).Draw(t, "le-b")
					if m.pool[x].exact.Cmp(m.pool[y].exact) > 0 && rapid.IntRange(0, 3).Draw(t, "le-swap") != 0 {
						x, y = y, x
					}
					push(Op{Op: name, A: []int{x, y}})
				}
			}
			if len(c.Ops) == 0 && rapid.IntRange(0, 50).Draw(t, "give-up") == 0 {
				break
			}
		}
		if len(c.Ops) == 0 {
			c.Ops = append(c.Ops, Op{Op: "Add", A: []int{0, 0}})
		}
		if cfg.Mode == "adv" {
			// make sure a multiplication hint is invoked, preferably on the freshest element
			_, m := cur()
			if m.failAt < 0 {
				n := len(m.pool)
				push(Op{Op: rapid.SampledFrom([]string{"Mul", "Mul", "Reduce", "Div", "Inverse", "ReduceStrict", "ToBitsCanonical", "IsZero"}).Draw(t, "adv-tail"),
					A: []int{n - 1, pick(t, n, "adv-b")}})
			}
		}
		// exports: a few pool elements asserted equal to public claims (not in adversarial mode)
		st, m := cur()
		_ = st
		if cfg.Mode != "adv" {
			k := rapid.IntRange(0, 3).Draw(t, "nexport")
			for j := 0; j < k; j++ {
				x := pick(t, len(m.pool), "export")
				if !m.pool[x].tainted {
					c.Export = append(c.Export, x)
				}
			}
		} else {
			c.Builder = rapid.SampledFrom([]string{"r1cs", "scs"}).Draw(t, "builder")
			has := map[string]bool{}
			for _, o := range c.Ops {
				has[o.Op] = true
			}
			hints := []string{"mulHint", "mulHint", "mulHint", "mulHint", "mulHint"}
			if has["Eval"] {
				hints = append(hints, "polyMvHint", "polyMvHint")
			}
			if has["Div"] {
				hints = append(hints, "DivHint", "DivHint")
			}
			if has["Inverse"] {
				hints = append(hints, "InverseHint", "InverseHint")
			}
			if has["Sqrt"] {
				hints = append(hints, "SqrtHint", "SqrtHint")
			}
			nSolves := rapid.IntRange(3, 6).Draw(t, "nsolves")
			for s := 0; s < nSolves; s++ {
				var set []Strat
				ns := 1
				if rapid.IntRange(0, 3).Draw(t, "two-strats") == 0 {
					ns = 2
				}
				for x := 0; x < ns; x++ {
					h := rapid.SampledFrom(hints).Draw(t, "hint")
					var kind string
					if h == "mulHint" || h == "polyMvHint" {
						kind = rapid.SampledFrom([]string{"r+d", "r+d", "r+p", "r+p", "wrap", "wrap", "wrap", "wrap0", "stuff", "stuff",
							"kshift", "carry", "recarry", "rwide", "rwide"}).Draw(t, "kind")
					} else {
						kind = rapid.SampledFrom([]string{"o+d", "o+d", "zero", "neg", "o+p", "owide", "clearerr"}).Draw(t, "kind")
					}
					set = append(set, Strat{Hint: h, Seq: rapid.IntRange(0, 63).Draw(t, "seq"), Kind: kind,
						D: rapid.SampledFrom([]int{1, 1, -1, 2, 3, 1000}).Draw(t, "d")})
				}
				c.Adv = append(c.Adv, set)
			}
		}
		return c
	})
}

package c12

import (
	"math/big"
	"strings"

	"verifharness/lib/hintadv"
)

// mulForge is the parsed view of one mulHint / polyMvHint invocation: the
// deferred check is lhs(X) = rem(X) + quo(X) p(X) + (2^w - X) car(X).
type mulForge struct {
	w             uint
	N             *big.Int // native modulus
	p             *big.Int
	pl            []*big.Int
	lhs           []*big.Int // integer coefficients of the left-hand side limb polynomial
	quo, rem, car []*big.Int // alias the hint outputs
}

func recompose(l []*big.Int, w uint) *big.Int {
	r := new(big.Int)
	for i := len(l) - 1; i >= 0; i-- {
		r.Lsh(r, w)
		r.Add(r, l[i])
	}
	return r
}

// decomposeInto writes v in base 2^w into l; false if it does not fit or is negative.
func decomposeInto(v *big.Int, w uint, l []*big.Int) bool {
	if v.Sign() < 0 || v.BitLen() > int(w)*len(l) {
		return false
	}
	t := new(big.Int).Set(v)
	mask := new(big.Int).Lsh(big.NewInt(1), w)
	mask.Sub(mask, big.NewInt(1))
	for i := range l {
		l[i].And(t, mask)
		t.Rsh(t, w)
	}
	return true
}

func polyMul(x, y []*big.Int) []*big.Int {
	if len(x) == 0 || len(y) == 0 {
		return nil
	}
	res := make([]*big.Int, len(x)+len(y)-1)
	for i := range res {
		res[i] = new(big.Int)
	}
	t := new(big.Int)
	for i := range x {
		for j := range y {
			res[i+j].Add(res[i+j], t.Mul(x[i], y[j]))
		}
	}
	return res
}

func polyAdd(x, y []*big.Int) []*big.Int {
	n := len(x)
	if len(y) > n {
		n = len(y)
	}
	res := make([]*big.Int, n)
	for i := range res {
		res[i] = new(big.Int)
		if i < len(x) {
			res[i].Add(res[i], x[i])
		}
		if i < len(y) {
			res[i].Add(res[i], y[i])
		}
	}
	return res
}

func parseMulHint(c *hintadv.Call) *mulForge {
	in := c.Inputs
	if len(in) < 4 {
		return nil
	}
	w := uint(in[0].Int64())
	n := int(in[1].Int64())
	na := int(in[2].Int64())
	nq := int(in[3].Int64())
	if len(in) < 4+n+na || len(c.Outputs) < nq+n {
		return nil
	}
	m := &mulForge{w: w, N: c.Mod, pl: in[4 : 4+n]}
	m.p = recompose(m.pl, w)
	m.lhs = polyMul(in[4+n:4+n+na], in[4+n+na:])
	m.quo, m.rem, m.car = c.Outputs[:nq], c.Outputs[nq:nq+n], c.Outputs[nq+n:]
	return m
}

func parsePolyMvHint(c *hintadv.Call) *mulForge {
	in := c.Inputs
	if len(in) < 7 {
		return nil
	}
	w := uint(in[0].Int64())
	n := int(in[1].Int64())
	nt := int(in[2].Int64())
	nv := int(in[3].Int64())
	nq := int(in[4].Int64())
	nc := int(in[5].Int64())
	if len(c.Outputs) != nq+n+nc {
		return nil
	}
	ptr := 6
	terms := make([][]int, nt)
	for i := range terms {
		terms[i] = make([]int, nv)
		for j := range terms[i] {
			terms[i][j] = int(in[ptr].Int64())
			ptr++
		}
	}
	coefs := in[ptr : ptr+nt]
	ptr += nt
	m := &mulForge{w: w, N: c.Mod, pl: in[ptr : ptr+n]}
	ptr += n
	m.p = recompose(m.pl, w)
	vars := make([][]*big.Int, nv)
	for i := range vars {
		l := int(in[ptr].Int64())
		ptr++
		vars[i] = in[ptr : ptr+l]
		ptr += l
	}
	for i, t := range terms {
		term := []*big.Int{new(big.Int).Set(coefs[i])}
		any := false
		for j, pow := range t {
			for k := 0; k < pow; k++ {
				term = polyMul(term, vars[j])
				any = true
			}
		}
		if any {
			m.lhs = polyAdd(m.lhs, term)
		}
	}
	m.quo, m.rem, m.car = c.Outputs[:nq], c.Outputs[nq:nq+n], c.Outputs[nq+n:]
	return m
}

func (m *mulForge) rhs() []*big.Int { return polyAdd(polyMul(m.quo, m.pl), m.rem) }

// recarryInt recomputes the carries over the integers exactly as the genuine hint does.
func (m *mulForge) recarryInt() {
	rhs := m.rhs()
	carry := new(big.Int)
	for i := range m.car {
		if i < len(m.lhs) {
			carry.Add(carry, m.lhs[i])
		}
		if i < len(rhs) {
			carry.Sub(carry, rhs[i])
		}
		carry.Rsh(carry, m.w)
		m.car[i].Set(carry)
	}
}

// recarryField recomputes the carries in the native field: every coefficient
// equation but the last one then holds modulo N whatever quo and rem are.
func (m *mulForge) recarryField() {
	rhs := m.rhs()
	inv := new(big.Int).ModInverse(new(big.Int).Lsh(big.NewInt(1), m.w), m.N)
	carry := new(big.Int)
	for i := range m.car {
		if i < len(m.lhs) {
			carry.Add(carry, m.lhs[i])
		}
		if i < len(rhs) {
			carry.Sub(carry, rhs[i])
		}
		carry.Mul(carry, inv)
		carry.Mod(carry, m.N)
		m.car[i].Set(carry)
	}
}

// audit of the final outputs of a multiplication-type hint call.
type mulAudit struct {
	quoOut, remOut bool // a quotient / remainder limb outside the range the circuit is documented to enforce
	carryBeyond    bool // a carry limb beyond the honest bound
	intFalse       bool // lhs != rem + quo*p over the integers (it can then only hold modulo the native field)
}

func (m *mulForge) audit(topBits uint) mulAudit {
	var a mulAudit
	for _, l := range m.quo {
		if l.Sign() < 0 || l.BitLen() > int(m.w) {
			a.quoOut = true
		}
	}
	for i, l := range m.rem {
		lim := int(m.w)
		if i == len(m.rem)-1 {
			lim = int(topBits)
		}
		if l.Sign() < 0 || l.BitLen() > lim {
			a.remOut = true
		}
	}
	// honest carries are bounded by the largest coefficient of either side
	h := big.NewInt(1)
	for _, x := range m.lhs {
		if x.CmpAbs(h) > 0 {
			h.Abs(x)
		}
	}
	for _, x := range m.rhs() {
		if x.CmpAbs(h) > 0 {
			h.Abs(x)
		}
	}
	h.Lsh(h, 1)
	if recompose(m.lhs, m.w).Cmp(recompose(m.rhs(), m.w)) != 0 {
		a.intFalse = true
	}
	half := new(big.Int).Rsh(m.N, 1)
	for _, cl := range m.car {
		s := new(big.Int).Mod(cl, m.N)
		if s.Cmp(half) > 0 {
			s.Sub(s, m.N)
		}
		if s.CmpAbs(h) > 0 {
			a.carryBeyond = true
		}
	}
	return a
}

// advAudit accumulates, over one adversarial solve, what the rewrites did.
type advAudit struct {
	applied      []string // kinds applied
	infeasible   []string // kinds that could not be built for the targeted invocation
	carryBeyond  bool     // some mul-type call ended with a carry beyond the honest bound
	intFalse     bool     // some mul-type call ended with an identity that is false over the integers
	outOfRange   bool     // some rewritten output violates a range the circuit is documented to enforce
	nonMulChange bool
	counts       map[string]int
}

func hintShort(name string) string {
	if i := strings.LastIndex(name, "."); i >= 0 {
		return name[i+1:]
	}
	return name
}

func isEmulatedHint(name string) bool {
	return strings.Contains(name, "std/math/emulated.")
}

// applyMul applies one rewrite kind to a multiplication-type call. It reports whether outputs changed.
func applyMul(m *mulForge, s Strat, topBits uint) (changed, feasible bool) {
	w := m.w
	switch s.Kind {
	case "r+d":
		r := recompose(m.rem, w)
		d := int64(s.D)
		if d == 0 {
			d = 1
		}
		r.Add(r, big.NewInt(d))
		if !decomposeInto(r, w, m.rem) {
			return false, false
		}
		m.recarryInt()
		return true, true
	case "r+p":
		r := recompose(m.rem, w)
		k := recompose(m.quo, w)
		r.Add(r, m.p)
		k.Sub(k, big.NewInt(1))
		if r.BitLen() > int(w)*(len(m.rem)-1)+int(topBits) || k.Sign() < 0 {
			return false, false
		}
		decomposeInto(r, w, m.rem)
		decomposeInto(k, w, m.quo)
		m.recarryInt()
		return true, true
	case "rwide":
		// r + t*p with t = 2^(w-topBits+1): same residue, but the top limb no longer fits BitsPerLimb; k - t keeps the
		// identity true over the integers. Only a missing range check on the remainder lets this through.
		r := recompose(m.rem, w)
		k := recompose(m.quo, w)
		t := pow2(w - topBits + 1)
		if k.Cmp(t) < 0 || len(m.rem) == 0 {
			return false, false
		}
		r.Add(r, new(big.Int).Mul(t, m.p))
		k.Sub(k, t)
		low := make([]*big.Int, len(m.rem))
		for i := range low {
			low[i] = new(big.Int)
		}
		mask := new(big.Int).Sub(pow2(w*uint(len(m.rem)-1)), big.NewInt(1))
		lowPart := new(big.Int).And(r, mask)
		decomposeInto(lowPart, w, low[:len(low)-1])
		for i := 0; i < len(m.rem)-1; i++ {
			m.rem[i].Set(low[i])
		}
		m.rem[len(m.rem)-1].Rsh(r, w*uint(len(m.rem)-1))
		if !decomposeInto(k, w, m.quo) {
			return false, false
		}
		m.recarryInt()
		return true, true
	case "wrap", "wrap0", "stuff":
		r := recompose(m.rem, w)
		k := recompose(m.quo, w)
		d := big.NewInt(int64(s.D))
		if s.D == 0 {
			d.SetInt64(1)
		}
		if s.Kind == "wrap0" {
			d.Neg(r)
			if d.Sign() == 0 {
				return false, false
			}
		}
		pinv := new(big.Int).ModInverse(new(big.Int).Mod(m.p, m.N), m.N)
		if pinv == nil {
			return false, false
		}
		r2 := new(big.Int).Add(r, d)
		if r2.Sign() < 0 {
			r2.Add(r2, m.p)
			d.Add(d, m.p)
		}
		k2 := new(big.Int).Mul(d, pinv)
		k2.Sub(k, k2)
		k2.Mod(k2, m.N)
		if len(m.quo) == 0 {
			return false, false
		}
		if s.Kind == "stuff" {
			if !decomposeInto(r2, w, m.rem) {
				return false, false
			}
			m.quo[0].Set(k2)
			for i := 1; i < len(m.quo); i++ {
				m.quo[i].SetUint64(0)
			}
			m.recarryField()
			return true, true
		}
		if r2.BitLen() > int(w)*(len(m.rem)-1)+int(topBits) || k2.BitLen() > int(w)*len(m.quo) {
			return false, false
		}
		decomposeInto(r2, w, m.rem)
		decomposeInto(k2, w, m.quo)
		m.recarryField()
		return true, true
	case "kshift":
		if len(m.quo) < 2 || m.quo[1].Sign() <= 0 {
			return false, false
		}
		m.quo[0].Add(m.quo[0], new(big.Int).Lsh(big.NewInt(1), w))
		m.quo[1].Sub(m.quo[1], big.NewInt(1))
		m.recarryField()
		return true, true
	case "carry":
		if len(m.car) == 0 {
			return false, false
		}
		i := s.D
		if i < 0 {
			i = -i
		}
		m.car[i%len(m.car)].Add(m.car[i%len(m.car)], big.NewInt(1))
		return true, true
	case "recarry":
		m.recarryField()
		return true, true
	}
	return false, false
}

// applyValue rewrites the single emulated output of DivHint / InverseHint / SqrtHint.
func applyValue(c *hintadv.Call, s Strat, ps *paramSet) (changed, feasible bool) {
	w := ps.W
	out := c.Outputs
	if len(out) != int(ps.N) {
		return false, false
	}
	x := recompose(out, w)
	fits := func(v *big.Int) bool {
		return v.Sign() >= 0 && v.BitLen() <= int(w)*(len(out)-1)+int(ps.TopBits)
	}
	switch s.Kind {
	case "o+d":
		d := int64(s.D)
		if d == 0 {
			d = 1
		}
		x.Add(x, big.NewInt(d))
	case "zero":
		if x.Sign() == 0 {
			return false, false
		}
		x.SetUint64(0)
	case "neg":
		if x.Sign() == 0 {
			return false, false
		}
		x.Sub(ps.Q, new(big.Int).Mod(x, ps.Q))
	case "o+p":
		x.Add(x, ps.Q)
	case "owide":
		// same residue, top limb beyond BitsPerLimb: only a missing range check on the hinted value lets this through
		x.Add(x, new(big.Int).Mul(pow2(w-ps.TopBits+1), ps.Q))
		top := new(big.Int).Rsh(x, w*uint(len(out)-1))
		lowPart := new(big.Int).And(x, new(big.Int).Sub(pow2(w*uint(len(out)-1)), big.NewInt(1)))
		if len(out) > 1 {
			decomposeInto(lowPart, w, out[:len(out)-1])
		}
		out[len(out)-1].Set(top)
		return true, true
	case "clearerr":
		if c.Err == nil {
			return false, false
		}
		c.Err = nil
		d := s.D
		if d < 0 {
			d = -d
		}
		x.SetInt64(int64(d))
	default:
		return false, false
	}
	if !fits(x) {
		return false, false
	}
	decomposeInto(x, w, out)
	return true, true
}

// seqTarget maps a strategy's Seq to an invocation index among n: non-negative counts from the first
// invocation, negative from the last (-1 = last).
func seqTarget(seq, n int) int {
	if seq >= 0 {
		return seq % n
	}
	return n - 1 - ((-seq - 1) % n)
}

// strategy builds the hintadv strategy for one adversarial solve.
func strategy(strats []Strat, counts map[string]int, ps *paramSet, au *advAudit) hintadv.Strategy {
	return func(c *hintadv.Call) bool {
		short := hintShort(c.Name)
		if au.counts != nil {
			au.counts[short]++
		}
		changed := false
		isMul := short == "mulHint" || short == "polyMvHint"
		var mf *mulForge
		if isMul && c.Err == nil {
			if short == "mulHint" {
				mf = parseMulHint(c)
			} else {
				mf = parsePolyMvHint(c)
			}
		}
		for _, s := range strats {
			if s.Hint != short {
				continue
			}
			n := counts[short]
			if n <= 0 {
				continue
			}
			if seqTarget(s.Seq, n) != c.Seq {
				continue
			}
			var ch, feas bool
			if isMul {
				if mf == nil {
					continue
				}
				ch, feas = applyMul(mf, s, ps.TopBits)
			} else {
				if c.Err != nil && s.Kind != "clearerr" {
					continue
				}
				ch, feas = applyValue(c, s, ps)
				if ch {
					au.nonMulChange = true
				}
			}
			if !feas {
				au.infeasible = append(au.infeasible, s.Hint+":"+s.Kind)
			}
			if ch {
				au.applied = append(au.applied, s.Hint+":"+s.Kind)
				changed = true
			}
		}
		if mf != nil {
			a := mf.audit(ps.TopBits)
			if a.carryBeyond {
				au.carryBeyond = true
			}
			if a.intFalse {
				au.intFalse = true
			}
			if changed && (a.quoOut || a.remOut) {
				au.outOfRange = true
			}
		}
		return changed
	}
}

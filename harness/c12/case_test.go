package c12

import (
	"fmt"
	"math/big"
)

// Input is one initial pool element.
type Input struct {
	// Kind: "w" secret witness given limb by limb (may be non-canonical);
	// "c" in-circuit constant f.NewElement(Val); "zero"/"one"/"mod" the field constants.
	Kind  string   `json:"kind"`
	Limbs []string `json:"limbs,omitempty"` // decimal, least significant first (Kind "w")
	Val   string   `json:"val,omitempty"`   // decimal (Kind "c")
}

// Op is one step of the sequence. Operand indices address the pool (inputs
// first, then every element-producing op in order); they are taken modulo the
// current pool size so that every JSON case is executable.
type Op struct {
	Op string  `json:"op"`
	A  []int   `json:"a,omitempty"`
	K  string  `json:"k,omitempty"` // MulConst constant (decimal, may be negative)
	S  []int   `json:"s,omitempty"` // native secret values: selector bits / mux index / FromBits bits
	T  [][]int `json:"t,omitempty"` // Eval terms: positions in A
	C  []int   `json:"c,omitempty"` // Eval coefficients
}

// Strat is one hint-output rewrite applied during an adversarial solve.
type Strat struct {
	Hint string `json:"hint"` // short name: mulHint, polyMvHint, DivHint, InverseHint, SqrtHint
	Seq  int    `json:"seq"`  // invocation index, taken modulo the number of invocations of the honest solve
	Kind string `json:"kind"`
	D    int    `json:"d,omitempty"` // small parameter (delta / output index)
}

// Case fully determines one execution.
type Case struct {
	Params  string    `json:"params"`
	Native  string    `json:"native"`
	Mode    string    `json:"mode"`              // engine | compiled | adv
	Builder string    `json:"builder,omitempty"` // adv: r1cs | scs (compiled mode runs both)
	In      []Input   `json:"in"`
	Ops     []Op      `json:"ops"`
	Export  []int     `json:"export,omitempty"`      // pool elements asserted equal to public claimed values
	ClaimD  []int     `json:"claim_delta,omitempty"` // adv: claimed value = model + delta (per export)
	Adv     [][]Strat `json:"adv,omitempty"`         // adv: one solve per entry
	Groth16 bool      `json:"groth16,omitempty"`     // adv: confirm an accepted forgery with a real Groth16 proof
}

func bigOf(s string) *big.Int {
	b, ok := new(big.Int).SetString(s, 10)
	if !ok {
		return new(big.Int)
	}
	return b
}

// producesElem tells whether an op appends an element to the pool.
func producesElem(op string) bool {
	switch op {
	case "Add", "Sub", "Neg", "Mul", "MulMod", "MulNoReduce", "MulConst", "Sum", "Div", "Inverse", "Sqrt", "Exp",
		"Eval", "Reduce", "ReduceStrict", "Select", "Lookup2", "Mux", "FromBits", "BitsRoundTrip":
		return true
	}
	return false
}

// arity: minimal number of operands (variadic ops use len(A)).
func arity(op string) int {
	switch op {
	case "Neg", "MulConst", "Inverse", "Sqrt", "Reduce", "ReduceStrict", "ToBits", "ToBitsCanonical", "IsZero",
		"AssertIsInRange", "BitsRoundTrip":
		return 1
	case "Add", "Sub", "Mul", "MulMod", "MulNoReduce", "Div", "Exp", "Select", "AssertIsEqual", "AssertIsDifferent",
		"AssertIsLessOrEqual":
		return 2
	case "Lookup2":
		return 4
	case "Sum", "Mux", "Eval":
		return 1
	case "FromBits":
		return 0
	}
	return -1
}

// static describes what is known about the pool without looking at values.
type static struct {
	nIn     int
	opElem  []int  // pool index produced by op i, or -1
	exact   []bool // pool element has a documented exact integer representation
	isConst []bool // pool element is a compile-time constant input
	skip    []bool // op i is not executed (malformed, or its documented domain needs exact operands)
	opnds   [][]int
	// zeroLimb (filled after the circuit was defined): pool elements on zero limbs. Several methods return early
	// on such an operand, before the width of the other operand is enforced.
	zeroLimb map[int]bool
}

func (c *Case) analyse() *static {
	st := &static{nIn: len(c.In)}
	for _, in := range c.In {
		st.exact = append(st.exact, true)
		st.isConst = append(st.isConst, in.Kind != "w")
	}
	for _, o := range c.Ops {
		n := len(st.exact)
		ar := arity(o.Op)
		ok := ar >= 0 && n > 0 && len(o.A) >= ar
		var a []int
		if ok {
			for _, x := range o.A {
				if x < 0 {
					x = -x
				}
				a = append(a, x%n)
			}
			switch o.Op {
			case "Sum", "Mux", "Eval":
			default:
				a = a[:ar] // fixed arity: surplus operands are ignored
			}
		}
		allExact := true
		for _, x := range a {
			allExact = allExact && st.exact[x]
		}
		switch o.Op {
		case "AssertIsInRange", "AssertIsLessOrEqual":
			ok = ok && allExact
		case "Exp":
			ok = ok && st.exact[a[1]]
		case "Lookup2":
			ok = ok && len(o.S) >= 2
		case "Select", "Mux":
			ok = ok && len(o.S) >= 1
			if ok && o.Op == "Mux" {
				ok = len(a) >= 1 && o.S[0] >= 0 && o.S[0] < len(a)
			}
		case "FromBits":
			ok = ok && len(o.S) >= 1
		case "Eval":
			ok = ok && len(o.T) > 0 && len(o.T) == len(o.C)
			if ok {
				for i, t := range o.T {
					if len(t) == 0 || o.C[i] < 0 {
						ok = false
					}
					for _, x := range t {
						if x < 0 || x >= len(a) {
							ok = false
						}
					}
				}
			}
		case "MulConst":
			_, okk := new(big.Int).SetString(o.K, 10)
			ok = ok && okk
		}
		st.skip = append(st.skip, !ok)
		st.opnds = append(st.opnds, a)
		if ok && producesElem(o.Op) {
			st.opElem = append(st.opElem, n)
			ex := false
			switch o.Op {
			case "ReduceStrict", "FromBits":
				ex = true
			case "Select", "Lookup2", "Mux":
				ex = allExact
			}
			st.exact = append(st.exact, ex)
			// constant folding done by the package: these ops return a constant when all operands are constants
			cst := false
			switch o.Op {
			case "Add", "Sub", "Neg", "MulConst", "Reduce":
				cst = true
				for _, x := range a {
					cst = cst && st.isConst[x]
				}
			}
			st.isConst = append(st.isConst, cst)
		} else {
			st.opElem = append(st.opElem, -1)
		}
	}
	return st
}

// ---- reference model -------------------------------------------------------

type mval struct {
	v       *big.Int // value modulo q
	exact   *big.Int // exact integer represented (nil: only the residue is documented)
	tainted bool     // depends on which square root the prover chose
}

type model struct {
	pool    []mval
	failAt  int    // first op documented to make the circuit unsatisfiable (-1: none)
	failWhy string // reason
	undef   string // behaviour not documented for this case
	// expInt[i]: the native outputs (bits / boolean) of op i must be booleans that recompose (little endian) to
	// exactly this integer; nil when only a congruence is documented. expLen[i] >= 0: documented number of outputs.
	expInt []*big.Int
	expLen []int
	// congNative[i]: op i returns bits whose recomposition must be congruent to this pool element
	congNative []int
	// an assertion consumed a root-dependent element
	taintedAssert bool
	sqrtOps       []int
	// either: whether the circuit is satisfiable is not determined by the documentation (a too wide witness
	// consumed only through a fast path that does not enforce widths)
	either bool
	wideIn map[int]bool
}

func (m *model) fail(i int, why string) {
	if m.failAt < 0 {
		m.failAt, m.failWhy = i, why
	}
}

// evalModel evaluates the big-integer model. roots (optional) gives, per Sqrt
// op index, the root observed in the execution (validated here).
func evalModel(c *Case, ps *paramSet, st *static, engine bool, roots map[int]*big.Int) *model {
	q := ps.Q
	m := &model{failAt: -1, expInt: make([]*big.Int, len(c.Ops)), expLen: make([]int, len(c.Ops)), congNative: make([]int, len(c.Ops))}
	for i := range m.congNative {
		m.congNative[i] = -1
		m.expLen[i] = -1
	}
	mod := func(x *big.Int) *big.Int { return new(big.Int).Mod(x, q) }
	m.wideIn = map[int]bool{}
	wide := make([]int, len(c.In)) // 0 ok; 1 top limb beyond the modulus width; 2 a limb beyond BitsPerLimb
	for i, in := range c.In {
		var ex *big.Int
		switch in.Kind {
		case "w":
			ex = new(big.Int)
			for j := len(in.Limbs) - 1; j >= 0; j-- {
				l := bigOf(in.Limbs[j])
				ex.Lsh(ex, ps.W)
				ex.Add(ex, l)
				if l.BitLen() > int(ps.W) {
					wide[i] = 2
				} else if j == int(ps.N)-1 && l.BitLen() > int(ps.TopBits) && wide[i] == 0 {
					wide[i] = 1
				}
			}
			if len(in.Limbs) != int(ps.N) {
				m.undef = "witness with wrong limb count"
			}
		case "c":
			ex = bigOf(in.Val)
			if ex.Sign() < 0 {
				m.undef = "negative constant"
			}
			if ex.Cmp(q) != 0 {
				ex = mod(ex)
			}
		case "zero":
			ex = new(big.Int)
		case "one":
			ex = big.NewInt(1)
		case "mod":
			ex = new(big.Int).Set(q)
		default:
			m.undef = "unknown input kind"
			ex = new(big.Int)
		}
		m.pool = append(m.pool, mval{v: mod(ex), exact: ex})
	}
	for i, o := range c.Ops {
		if st.skip[i] {
			continue
		}
		a := st.opnds[i]
		fastPath := false
		for _, x := range a {
			fastPath = fastPath || st.zeroLimb[x]
		}
		if (o.Op == "MulConst" && bigOf(o.K).Sign() == 0) || (o.Op == "Sum" && len(a) == 1) {
			fastPath = true // returns before any width is enforced
		}
		for _, x := range a {
			if x < len(c.In) && wide[x] > 0 {
				m.wideIn[x] = true
				if fastPath {
					m.either = true
				} else if wide[x] == 2 || !engine {
					m.fail(i, fmt.Sprintf("witness %d has a limb wider than allowed", x))
				} else if m.undef == "" {
					m.undef = "test engine does not enforce the modulus width of the top limb"
				}
			}
		}
		P := func(k int) mval { return m.pool[a[k]] }
		taint := false
		for _, x := range a {
			taint = taint || m.pool[x].tainted
		}
		var res *big.Int
		var exact *big.Int
		switch o.Op {
		case "Add":
			res = new(big.Int).Add(P(0).v, P(1).v)
		case "Sub":
			res = new(big.Int).Sub(P(0).v, P(1).v)
		case "Neg":
			res = new(big.Int).Neg(P(0).v)
		case "Mul", "MulMod", "MulNoReduce":
			res = new(big.Int).Mul(P(0).v, P(1).v)
		case "MulConst":
			res = new(big.Int).Mul(P(0).v, bigOf(o.K))
		case "Sum":
			res = new(big.Int)
			for k := range a {
				res.Add(res, P(k).v)
			}
		case "Div":
			if P(1).v.Sign() == 0 {
				if P(0).v.Sign() == 0 {
					if m.undef == "" {
						m.undef = "0/0"
					}
				} else {
					m.fail(i, "Div by zero")
				}
				res = new(big.Int)
			} else {
				res = new(big.Int).ModInverse(P(1).v, q)
				res.Mul(res, P(0).v)
			}
		case "Inverse":
			if P(0).v.Sign() == 0 {
				m.fail(i, "Inverse of zero")
				res = new(big.Int)
			} else {
				res = new(big.Int).ModInverse(P(0).v, q)
			}
		case "Sqrt":
			m.sqrtOps = append(m.sqrtOps, i)
			if P(0).v.Sign() == 0 {
				res = new(big.Int)
			} else if big.Jacobi(P(0).v, q) != 1 {
				m.fail(i, "Sqrt of a non-residue")
				res = new(big.Int)
			} else {
				taint = true
				res = new(big.Int).ModSqrt(P(0).v, q)
				if r, ok := roots[i]; ok && r != nil {
					rr := mod(r)
					sq := mod(new(big.Int).Mul(rr, rr))
					if sq.Cmp(P(0).v) == 0 {
						res = rr
					}
					// a wrong observed root is reported by the comparison with res
				}
			}
		case "Exp":
			e := P(1).exact
			if e == nil {
				m.undef = "Exp with an exponent whose representation is not documented"
				res = new(big.Int)
			} else {
				if P(0).v.Sign() == 0 && e.Sign() == 0 && m.undef == "" {
					m.undef = "0^0"
				}
				res = new(big.Int).Exp(P(0).v, e, q)
			}
		case "Eval":
			res = new(big.Int)
			for ti, t := range o.T {
				term := big.NewInt(int64(o.C[ti]))
				for _, x := range t {
					term.Mul(term, P(x).v)
				}
				res.Add(res, term)
			}
		case "Reduce", "BitsRoundTrip":
			res = new(big.Int).Set(P(0).v)
		case "ReduceStrict":
			res = new(big.Int).Set(P(0).v)
			exact = new(big.Int).Set(P(0).v)
		case "Select":
			if o.S[0]&1 == 1 {
				res, exact = P(0).v, P(0).exact
			} else {
				res, exact = P(1).v, P(1).exact
			}
			taint = P(0).tainted || P(1).tainted
		case "Lookup2":
			k := (o.S[0] & 1) + 2*(o.S[1]&1)
			res, exact = P(k).v, P(k).exact
		case "Mux":
			res, exact = P(o.S[0]).v, P(o.S[0]).exact
		case "FromBits":
			exact = new(big.Int)
			for k := len(o.S) - 1; k >= 0; k-- {
				exact.Lsh(exact, 1)
				exact.Add(exact, big.NewInt(int64(o.S[k]&1)))
			}
			res = exact
		case "ToBits":
			// operand with a documented representation: the bits are exactly its bits
			if P(0).exact != nil {
				m.expInt[i] = new(big.Int).Set(P(0).exact)
			}
			m.congNative[i] = a[0]
		case "ToBitsCanonical":
			n := q.BitLen()
			if q.TrailingZeroBits() == uint(n-1) {
				n--
			}
			m.expInt[i] = new(big.Int).Set(P(0).v)
			m.expLen[i] = n
		case "IsZero":
			z := int64(0)
			if P(0).v.Sign() == 0 {
				z = 1
			}
			m.expInt[i] = big.NewInt(z)
			m.expLen[i] = 1
			m.taintedAssert = m.taintedAssert || taint
		case "AssertIsEqual":
			if P(0).v.Cmp(P(1).v) != 0 {
				m.fail(i, "AssertIsEqual on different values")
			}
			m.taintedAssert = m.taintedAssert || taint
		case "AssertIsDifferent":
			if P(0).v.Cmp(P(1).v) == 0 {
				m.fail(i, "AssertIsDifferent on equal values")
			}
			m.taintedAssert = m.taintedAssert || taint
		case "AssertIsInRange":
			if P(0).exact.Cmp(q) >= 0 {
				m.fail(i, "AssertIsInRange on a value >= modulus")
			}
		case "AssertIsLessOrEqual":
			if P(0).exact.Cmp(P(1).exact) > 0 {
				m.fail(i, "AssertIsLessOrEqual violated")
			}
			m.taintedAssert = m.taintedAssert || taint
		}
		if taint && (o.Op == "Div" || o.Op == "Inverse" || o.Op == "Sqrt") {
			// whether these fail may depend on the root
			m.taintedAssert = true
		}
		if st.opElem[i] >= 0 {
			if res == nil {
				res = new(big.Int)
			}
			m.pool = append(m.pool, mval{v: mod(res), exact: exact, tainted: taint})
		}
	}
	for _, x := range c.Export {
		if x < 0 {
			x = -x
		}
		x %= len(m.pool)
		if x < len(c.In) && wide[x] > 0 {
			m.wideIn[x] = true
			if wide[x] == 2 || !engine {
				m.fail(len(c.Ops)-1, fmt.Sprintf("witness %d has a limb wider than allowed", x))
			} else if m.undef == "" {
				m.undef = "test engine does not enforce the modulus width of the top limb"
			}
		}
	}
	return m
}

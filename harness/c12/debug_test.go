package c12

import (
	"encoding/json"
	"fmt"
	"os"
	"testing"
)

// TestDebugDump prints the static bookkeeping of a replay file (C12_DEBUG=<file>); development aid.
func TestDebugDump(t *testing.T) {
	p := os.Getenv("C12_DEBUG")
	if p == "" {
		t.Skip("C12_DEBUG not set")
	}
	b, err := os.ReadFile(p)
	if err != nil {
		t.Fatal(err)
	}
	var doc struct {
		Case Case `json:"case"`
	}
	if err := json.Unmarshal(b, &doc); err != nil {
		t.Fatal(err)
	}
	c := doc.Case
	ps := paramsByName(c.Params)
	nf, _ := nativeField(c.Native)
	st := c.analyse()
	m := evalModel(&c, ps, st, true, nil)
	claims, _, _ := claimsOf(&c, ps, m)
	pr := newProbe()
	defer pr.release()
	err = ps.engine(&c, pr, nf.Q, claims)
	fmt.Println("engine err:", err != nil)
	for i := range c.In {
		fmt.Printf("in %d %s meta=%+v vals=%v\n", i, c.In[i].Kind, pr.meta[i], pr.vals[i])
	}
	for i, o := range c.Ops {
		e := st.opElem[i]
		fmt.Printf("op %d %s a=%v k=%s -> pool %d meta=%+v vals=%v model=%v\n", i, o.Op, st.opnds[i], o.K, e, pr.meta[e], pr.vals[e], func() any {
			if e >= 0 && e < len(m.pool) {
				return m.pool[e].v
			}
			return nil
		}())
	}
	fmt.Println(run(c, nil))
}

// TestDebugPrefix runs every prefix of the op list of a replay file (C12_DEBUG=<file>); development aid.
func TestDebugPrefix(t *testing.T) {
	p := os.Getenv("C12_DEBUG")
	if p == "" {
		t.Skip("C12_DEBUG not set")
	}
	b, _ := os.ReadFile(p)
	var doc struct {
		Case Case `json:"case"`
	}
	if err := json.Unmarshal(b, &doc); err != nil {
		t.Fatal(err)
	}
	c := doc.Case
	for n := 1; n <= len(c.Ops); n++ {
		cc := c
		cc.Ops = c.Ops[:n]
		cc.Export = nil
		o := run(cc, nil)
		fmt.Printf("prefix %d (%s %v): violation=%v discard=%v\n", n, c.Ops[n-1].Op, c.Ops[n-1].A, o.Violation != "", o.DiscardWhy)
	}
}

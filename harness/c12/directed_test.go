package c12

import (
	"math/big"
	"testing"

	"verifharness/lib/ev"
)

// directed cases: boundary situations every run must see (documented failures, non-canonical
// representations, the shapes behind the known robustness findings), in the test engine and compiled.

func wIn(ps *paramSet, v *big.Int) Input { return Input{Kind: "w", Limbs: limbsOf(v, ps)} }
func cIn(v *big.Int) Input               { return Input{Kind: "c", Val: v.String()} }

func lowBitsOf(v *big.Int, n int) []int {
	r := make([]int, n)
	for i := range r {
		r[i] = int(v.Bit(i))
	}
	return r
}

func directedCases(ps *paramSet, native string) []Case {
	q := ps.Q
	one := big.NewInt(1)
	qm1 := new(big.Int).Sub(q, one)
	width := pow2(uint(q.BitLen()))
	maxv := new(big.Int).Sub(width, one) // all limbs maximal (non-canonical)
	nf, _ := nativeField(native)
	maxOf := nf.Q.BitLen() - 2 - int(ps.W)
	big1 := new(big.Int).Sub(pow2(uint(maxOf)), one).String()
	// a quadratic non-residue
	nr := big.NewInt(2)
	for big.Jacobi(nr, q) != -1 {
		nr.Add(nr, one)
	}
	mk := func(in []Input, ops []Op, export ...int) Case {
		return Case{Params: ps.Name, Native: native, In: in, Ops: ops, Export: export}
	}
	return []Case{
		// canonical / non-canonical boundary of AssertIsInRange and the strict operations
		mk([]Input{wIn(ps, qm1)}, []Op{{Op: "AssertIsInRange", A: []int{0}}}),
		mk([]Input{wIn(ps, q)}, []Op{{Op: "AssertIsInRange", A: []int{0}}}),
		mk([]Input{wIn(ps, maxv)}, []Op{{Op: "AssertIsInRange", A: []int{0}}}),
		mk([]Input{wIn(ps, q)}, []Op{{Op: "ReduceStrict", A: []int{0}}, {Op: "ToBitsCanonical", A: []int{0}}, {Op: "IsZero", A: []int{0}}, {Op: "ToBits", A: []int{0}}}, 1),
		mk([]Input{wIn(ps, maxv), wIn(ps, qm1)}, []Op{{Op: "ToBitsCanonical", A: []int{0}}, {Op: "AssertIsLessOrEqual", A: []int{1, 0}}, {Op: "ReduceStrict", A: []int{0}}, {Op: "AssertIsLessOrEqual", A: []int{2, 1}}}),
		mk([]Input{wIn(ps, maxv), wIn(ps, qm1)}, []Op{{Op: "AssertIsLessOrEqual", A: []int{0, 1}}}),
		// documented failures
		mk([]Input{wIn(ps, q)}, []Op{{Op: "Inverse", A: []int{0}}}),
		mk([]Input{wIn(ps, one), wIn(ps, new(big.Int))}, []Op{{Op: "Div", A: []int{0, 1}}}),
		mk([]Input{wIn(ps, one), wIn(ps, q)}, []Op{{Op: "Sub", A: []int{1, 1}}, {Op: "Div", A: []int{0, 2}}}),
		mk([]Input{wIn(ps, nr)}, []Op{{Op: "Sqrt", A: []int{0}}}),
		mk([]Input{wIn(ps, qm1), wIn(ps, maxv)}, []Op{{Op: "Add", A: []int{0, 1}}, {Op: "AssertIsDifferent", A: []int{2, 1}}, {Op: "Mul", A: []int{0, 0}}, {Op: "AssertIsEqual", A: []int{3, 1}}}),
		// overflow bookkeeping at the limit: maximal limbs times the largest admissible constant, then consumers
		mk([]Input{wIn(ps, maxv), wIn(ps, qm1)}, []Op{{Op: "MulConst", A: []int{0}, K: big1}, {Op: "Add", A: []int{2, 2}}, {Op: "Sub", A: []int{1, 2}},
			{Op: "Mul", A: []int{2, 4}}, {Op: "ToBits", A: []int{2}}, {Op: "IsZero", A: []int{4}}, {Op: "AssertIsEqual", A: []int{3, 3}}}, 5, 2),
		mk([]Input{wIn(ps, maxv)}, []Op{{Op: "MulConst", A: []int{0}, K: big1}, {Op: "Sum", A: []int{1, 1, 1, 1, 1, 1, 1, 1}}, {Op: "Reduce", A: []int{2}}}, 3),
		mk([]Input{wIn(ps, maxv)}, []Op{{Op: "MulNoReduce", A: []int{0, 0}}, {Op: "MulNoReduce", A: []int{1, 0}}, {Op: "MulNoReduce", A: []int{2, 1}}, {Op: "Sub", A: []int{0, 3}}, {Op: "BitsRoundTrip", A: []int{3}}}, 4, 5),
		mk([]Input{wIn(ps, maxv)}, []Op{{Op: "Add", A: []int{0, 0}}, {Op: "Add", A: []int{1, 1}}, {Op: "Add", A: []int{2, 2}}, {Op: "ToBits", A: []int{3}}, {Op: "ToBits", A: []int{1}}, {Op: "BitsRoundTrip", A: []int{3}}}, 4),
		// elements on fewer limbs than the modulus (short constants, FromBits of few bits)
		mk([]Input{cIn(new(big.Int).Mod(q, pow2(ps.W))), wIn(ps, qm1)}, []Op{{Op: "IsZero", A: []int{0}}, {Op: "AssertIsDifferent", A: []int{0, 1}}}),
		mk([]Input{cIn(one), wIn(ps, qm1)}, []Op{{Op: "AssertIsInRange", A: []int{0}}, {Op: "ToBitsCanonical", A: []int{0}}}),
		mk([]Input{wIn(ps, qm1)}, []Op{{Op: "FromBits", S: lowBitsOf(q, int(ps.W))}, {Op: "IsZero", A: []int{1}}, {Op: "AssertIsInRange", A: []int{1}}, {Op: "ToBitsCanonical", A: []int{1}},
			{Op: "Add", A: []int{1, 1}}, {Op: "Add", A: []int{2, 1}}, {Op: "Mul", A: []int{2, 3}}, {Op: "Mul", A: []int{4, 4}}}, 5),
		mk([]Input{cIn(new(big.Int).Sub(pow2(ps.W), one)), wIn(ps, qm1)}, []Op{{Op: "Add", A: []int{0, 0}}, {Op: "Add", A: []int{2, 0}}, {Op: "Mul", A: []int{2, 3}},
			{Op: "Eval", A: []int{0}, T: [][]int{{0, 0}, {0, 0}}, C: []int{255, 7}}}, 4),
		// shapes behind the robustness findings
		mk([]Input{wIn(ps, qm1), wIn(ps, maxv)}, []Op{{Op: "Mul", A: []int{0, 1}}, {Op: "MulNoReduce", A: []int{0, 1}}, {Op: "Select", A: []int{3, 2}, S: []int{1}}}, 4, 2),
		mk([]Input{wIn(ps, big.NewInt(5))}, []Op{{Op: "MulConst", A: []int{0}, K: "-3"}}, 1),
		mk([]Input{cIn(big.NewInt(5)), wIn(ps, maxv)}, []Op{{Op: "Inverse", A: []int{0}}, {Op: "Mul", A: []int{2, 0}}}, 3),
		mk([]Input{cIn(big.NewInt(5)), wIn(ps, qm1)}, []Op{{Op: "ReduceStrict", A: []int{0}}}),
		mk([]Input{wIn(ps, qm1)}, []Op{{Op: "Sub", A: []int{0, 0}}, {Op: "Reduce", A: []int{1}}, {Op: "IsZero", A: []int{2}}}),
		mk([]Input{cIn(big.NewInt(5)), wIn(ps, qm1)}, []Op{{Op: "MulNoReduce", A: []int{1, 1}}, {Op: "Mux", A: []int{0, 2}, S: []int{1}}, {Op: "Reduce", A: []int{3}}}, 4),
		mk([]Input{cIn(big.NewInt(5)), wIn(ps, qm1)}, []Op{{Op: "Lookup2", A: []int{0, 1, 1, 0}, S: []int{1, 0}}, {Op: "Mul", A: []int{2, 2}}}, 3),
		mk([]Input{wIn(ps, qm1), cIn(big.NewInt(5))}, []Op{{Op: "Lookup2", A: []int{0, 1, 1, 0}, S: []int{1, 1}}, {Op: "Mux", A: []int{0, 1, 1}, S: []int{2}}, {Op: "Mul", A: []int{2, 3}}}, 4),
	}
}

func TestDirectedCases(t *testing.T) {
	rec := ev.Get(ID)
	rec.SetRule(rule)
	sets := []string{"goldilocks", "secp256k1fp", "bn254fr", "bls12381fp", "small3x11", "odd5x13"}
	for pi, pn := range sets {
		native := tierNatives()[pi%len(tierNatives())]
		for _, c := range directedCases(paramsByName(pn), native) {
			for _, mode := range []string{"engine", "compiled"} {
				c := c
				c.Mode = mode
				rec.Begin(mode, c)
				rec.Report(t, mode, c, run(c, rec))
			}
		}
	}
}

package c12

import (
	"math/big"
	"testing"

	"verifharness/lib/ev"
)

// directed cases: boundary situations every run must see (documented failures, non-canonical
// representations, the shapes behind the known robustness findings), in the test engine and compiled.

func wIn(ps *paramSet, v *big.Int) Input { return Input{Kind: "w", Limbs: limbsOf(v, ps)} }
func cIn(v *big.Int) Input               { return Input{Kind: "c", Val: v.String()} }

func lowBitsOf(v *big.Int, n int) []int {
	r := make([]int, n)
	for i := range r {
		r[i] = int(v.Bit(i))
	}
	return r
}

func directedCases(ps *paramSet, native string) []Case {
	q := ps.Q
	one := big.NewInt(1)
	qm1 := new(big.Int).Sub(q, one)
	width := pow2(uint(q.BitLen()))
	maxv := new(big.Int).Sub(width, one) // all limbs maximal (non-canonical)
	nf, _ := nativeField(native)
	maxOf := nf.Q.BitLen() - 2 - int(ps.W)
	big1 := new(big.Int).Sub(pow2(uint(maxOf)), one).String()
	// a quadratic non-residue
	nr := big.NewInt(2)
	for big.Jacobi(nr, q) != -1 {
		nr.Add(nr, one)
	}
	mk := func(in []Input, ops []Op, export ...int) Case {
		return Case{Params: ps.Name, Native: native, In: in, Ops: ops, Export: export}
	}
	return []Case{
		// canonical / non-canonical boundary of AssertIsInRange and the strict operations
		mk([]Input{wIn(ps, qm1)}, []Op{{Op: "AssertIsInRange", A: []int{0}}}),
		mk([]Input{wIn(ps, q)}, []Op{{Op: "AssertIsInRange", A: []int{0}}}),
		mk([]Input{wIn(ps, maxv)}, []Op{{Op: "AssertIsInRange", A: []int{0}}}),
		mk([]Input{wIn(ps, q)}, []Op{{Op: "ReduceStrict", A: []int{0}}, {Op: "ToBitsCanonical", A: []int{0}}, {Op: "IsZero", A: []int{0}}, {Op: "ToBits", A: []int{0}}}, 1),
		mk([]Input{wIn(ps, maxv), wIn(ps, qm1)}, []Op{{Op: "ToBitsCanonical", A: []int{0}}, {Op: "AssertIsLessOrEqual", A: []int{1, 0}}, {Op: "ReduceStrict", A: []int{0}}, {Op: "AssertIsLessOrEqual", A: []int{2, 1}}}),
		mk([]Input{wIn(ps, maxv), wIn(ps, qm1)}, []Op{{Op: "AssertIsLessOrEqual", A: []int{0, 1}}}),
		// documented failures
		mk([]Input{wIn(ps, q)}, []Op{{Op: "Inverse", A: []int{0}}}),
		mk([]Input{wIn(ps, one), wIn(ps, new(big.Int))}, []Op{{Op: "Div", A: []int{0, 1}}}),
		mk([]Input{wIn(ps, one), wIn(ps, q)}, []Op{{Op: "Sub", A: []int{1, 1}}, {Op: "Div", A: []int{0, 2}}}),
		mk([]Input{wIn(ps, nr)}, []Op{{Op: "Sqrt", A: []int{0}}}),
		mk([]Input{wIn(ps, qm1), wIn(ps, maxv)}, []Op{{Op: "Add", A: []int{0, 1}}, {Op: "AssertIsDifferent", A: []int{2, 1}}, {Op: "Mul", A: []int{0, 0}}, {Op: "AssertIsEqual", A: []int{3, 1}}}),
		// overflow bookkeeping at the limit: maximal limbs times the largest admissible constant, then consumers
		mk([]Input{wIn(ps, maxv), wIn(ps, qm1)}, []Op{{Op: "MulConst", A: []int{0}, K: big1}, {Op: "Add", A: []int{2, 2}}, {Op: "Sub", A: []int{1, 2}},
			{Op: "Mul", A: []int{2, 4}}, {Op: "ToBits", A: []int{2}}, {Op: "IsZero", A: []int{4}}, {Op: "AssertIsEqual", A: []int{3, 3}}}, 5, 2),
		mk([]Input{wIn(ps, maxv)}, []Op{{Op: "MulConst", A: []int{0}, K: big1}, {Op: "Sum", A: []int{1, 1, 1, 1, 1, 1, 1, 1}}, {Op: "Reduce", A: []int{2}}}, 3),
		mk([]Input{wIn(ps, maxv)}, []Op{{Op: "MulNoReduce", A: []int{0, 0}}, {Op: "MulNoReduce", A: []int{1, 0}}, {Op: "MulNoReduce", A: []int{2, 1}}, {Op: "Sub", A: []int{0, 3}}, {Op: "BitsRoundTrip", A: []int{3}}}, 4, 5),
		mk([]Input{wIn(ps, maxv)}, []Op{{Op: "Add", A: []int{0, 0}}, {Op: "Add", A: []int{1, 1}}, {Op: "Add", A: []int{2, 2}}, {Op: "ToBits", A: []int{3}}, {Op: "ToBits", A: []int{1}}, {Op: "BitsRoundTrip", A: []int{3}}}, 4),
		// elements on fewer limbs than the modulus (short constants, FromBits of few bits)
		mk([]Input{cIn(new(big.Int).Mod(q, pow2(ps.W))), wIn(ps, qm1)}, []Op{{Op: "IsZero", A: []int{0}}, {Op: "AssertIsDifferent", A: []int{0, 1}}}),
		mk([]Input{cIn(one), wIn(ps, qm1)}, []Op{{Op: "AssertIsInRange", A: []int{0}}, {Op: "ToBitsCanonical", A: []int{0}}}),
		mk([]Input{wIn(ps, qm1)}, []Op{{Op: "FromBits", S: lowBitsOf(q, int(ps.W))}, {Op: "IsZero", A: []int{1}}, {Op: "AssertIsInRange", A: []int{1}}, {Op: "ToBitsCanonical", A: []int{1}},
			{Op: "Add", A: []int{1, 1}}, {Op: "Add", A: []int{2, 1}}, {Op: "Mul", A: []int{2, 3}}, {Op: "Mul", A: []int{4, 4}}}, 5),
		mk([]Input{cIn(new(big.Int).Sub(pow2(ps.W), one)), wIn(ps, qm1)}, []Op{{Op: "Add", A: []int{0, 0}}, {Op: "Add", A: []int{2, 0}}, {Op: "Mul", A: []int{2, 3}},
			{Op: "Eval", A: []int{0}, T: [][]int{{0, 0}, {0, 0}}, C: []int{255, 7}}}, 4),
		// shapes behind the robustness findings
		mk([]Input{wIn(ps, qm1), wIn(ps, maxv)}, []Op{{Op: "Mul", A: []int{0, 1}}, {Op: "MulNoReduce", A: []int{0, 1}}, {Op: "Select", A: []int{3, 2}, S: []int{1}}}, 4, 2),
		mk([]Input{wIn(ps, big.NewInt(5))}, []Op{{Op: "MulConst", A: []int{0}, K: "-3"}}, 1),
		mk([]Input{cIn(big.NewInt(5)), wIn(ps, maxv)}, []Op{{Op: "Inverse", A: []int{0}}, {Op: "Mul", A: []int{2, 0}}}, 3),
		mk([]Input{cIn(big.NewInt(5)), wIn(ps, qm1)}, []Op{{Op: "ReduceStrict", A: []int{0}}}),
		mk([]Input{wIn(ps, qm1)}, []Op{{Op: "Sub", A: []int{0, 0}}, {Op: "Reduce", A: []int{1}}, {Op: "IsZero", A: []int{2}}}),
		mk([]Input{cIn(big.NewInt(5)), wIn(ps, qm1)}, []Op{{Op: "MulNoReduce", A: []int{1, 1}}, {Op: "Mux", A: []int{0, 2}, S: []int{1}}, {Op: "Reduce", A: []int{3}}}, 4),
		mk([]Input{cIn(big.NewInt(5)), wIn(ps, qm1)}, []Op{{Op: "Lookup2", A: []int{0, 1, 1, 0}, S: []int{1, 0}}, {Op: "Mul", A: []int{2, 2}}}, 3),
		mk([]Input{wIn(ps, qm1), cIn(big.NewInt(5))}, []Op{{Op: "Lookup2", A: []int{0, 1, 1, 0}, S: []int{1, 1}}, {Op: "Mux", A: []int{0, 1, 1}, S: []int{2}}, {Op: "Mul", A: []int{2, 3}}}, 4),
	}
}

// strictSelectCases: selections (Mux / Select / Lookup2) mixing strictly reduced elements (ReduceStrict outputs,
// inputs asserted in range) with one element that is not (non-canonical witness q / all-ones limbs, or an unreduced
// sum), at the first / middle / last position and selected, followed by the ops whose documented result is that of
// the canonical representative. A library that remembers "already strictly reduced" must not let the selection
// inherit it from only some candidates.
func strictSelectCases(ps *paramSet, native string) []Case {
	q := ps.Q
	one := big.NewInt(1)
	qm1 := new(big.Int).Sub(q, one)
	maxv := new(big.Int).Sub(pow2(uint(q.BitLen())), one)
	nc := new(big.Int).Add(q, big.NewInt(5)) // q+5 when it fits the modulus width, else q itself
	if nc.BitLen() > q.BitLen() {
		nc = new(big.Int).Set(q)
	}
	mk := func(in []Input, ops []Op, export ...int) Case {
		return Case{Params: ps.Name, Native: native, In: in, Ops: ops, Export: export}
	}
	// inputs: 0 = q-1, 1 = 5, 2 = non-canonical, 3 = all-ones limbs; ops 0,1: strict reductions -> pool 4, 5
	in := []Input{wIn(ps, qm1), wIn(ps, big.NewInt(5)), wIn(ps, nc), wIn(ps, maxv)}
	pre := []Op{{Op: "ReduceStrict", A: []int{0}}, {Op: "ReduceStrict", A: []int{1}}}
	follow := func(x int) []Op {
		return []Op{{Op: "ToBitsCanonical", A: []int{x}}, {Op: "ReduceStrict", A: []int{x}}, {Op: "IsZero", A: []int{x}},
			{Op: "AssertIsLessOrEqual", A: []int{x + 1, 4}}, {Op: "ToBits", A: []int{x + 1}}}
	}
	seq := func(sel Op, tail []Op) []Op {
		r := append([]Op{}, pre...)
		r = append(r, sel)
		return append(r, tail...)
	}
	var cs []Case
	for _, odd := range []int{2, 3} {
		// Mux, 3 inputs: the element that is not strictly reduced at each position, selected
		for pos := 0; pos < 3; pos++ {
			as := []int{4, 5}
			as = append(as[:pos], append([]int{odd}, as[pos:]...)...)
			cs = append(cs, mk(in, seq(Op{Op: "Mux", A: as, S: []int{pos}}, follow(6)), 7))
			// in range must reject it (documented failure)
			cs = append(cs, mk(in, seq(Op{Op: "Mux", A: as, S: []int{pos}}, []Op{{Op: "AssertIsInRange", A: []int{6}}})))
		}
		// selected element is a strictly reduced one although another candidate is not
		cs = append(cs, mk(in, seq(Op{Op: "Mux", A: []int{4, 5, odd}, S: []int{0}}, append(follow(6), Op{Op: "AssertIsInRange", A: []int{6}})), 7))
		// Mux with 2 and 5 inputs, last selected
		cs = append(cs, mk(in, seq(Op{Op: "Mux", A: []int{4, odd}, S: []int{1}}, follow(6)), 7))
		cs = append(cs, mk(in, seq(Op{Op: "Mux", A: []int{4, 5, 4, 5, odd}, S: []int{4}}, follow(6)), 7))
		// Select (selector 1 returns the first operand) and Lookup2 at every position
		cs = append(cs, mk(in, seq(Op{Op: "Select", A: []int{odd, 4}, S: []int{1}}, follow(6)), 7))
		cs = append(cs, mk(in, seq(Op{Op: "Select", A: []int{4, odd}, S: []int{0}}, follow(6)), 7))
		for pos := 0; pos < 4; pos++ {
			as := []int{4, 5, 4}
			as = append(as[:pos], append([]int{odd}, as[pos:]...)...)
			cs = append(cs, mk(in, seq(Op{Op: "Lookup2", A: as, S: []int{pos & 1, pos >> 1}}, follow(6)), 7))
		}
	}
	// strictness obtained through AssertIsInRange on the inputs themselves
	cs = append(cs, mk(in, []Op{{Op: "AssertIsInRange", A: []int{0}}, {Op: "AssertIsInRange", A: []int{1}},
		{Op: "Mux", A: []int{0, 1, 2}, S: []int{2}}, {Op: "ToBitsCanonical", A: []int{4}}, {Op: "ReduceStrict", A: []int{4}}, {Op: "IsZero", A: []int{4}}}, 5))
	cs = append(cs, mk(in, []Op{{Op: "AssertIsInRange", A: []int{0}}, {Op: "AssertIsInRange", A: []int{1}},
		{Op: "Mux", A: []int{0, 1, 3}, S: []int{2}}, {Op: "AssertIsInRange", A: []int{4}}}))
	// an unreduced computation result (q-1 + all-ones) as the last, selected candidate
	cs = append(cs, mk(in, seq(Op{Op: "Add", A: []int{0, 3}}, []Op{{Op: "Mux", A: []int{4, 5, 6}, S: []int{2}},
		{Op: "ToBitsCanonical", A: []int{7}}, {Op: "ReduceStrict", A: []int{7}}, {Op: "IsZero", A: []int{7}}}), 8))
	cs = append(cs, mk(in, seq(Op{Op: "Reduce", A: []int{3}}, []Op{{Op: "Mux", A: []int{4, 6}, S: []int{1}},
		{Op: "ToBitsCanonical", A: []int{7}}, {Op: "ReduceStrict", A: []int{7}}}), 8))
	return cs
}

func TestStrictSelectCases(t *testing.T) {
	rec := ev.Get(ID)
	rec.SetRule(rule)
	sets := []string{"secp256k1fp", "small3x11", "goldilocks"}
	if ev.Tier() == "thorough" {
		sets = append(sets, "bn254fr", "odd5x13", "bls12381fp", "p384fp")
	}
	for pi, pn := range sets {
		native := tierNatives()[pi%len(tierNatives())]
		for _, c := range strictSelectCases(paramsByName(pn), native) {
			for _, mode := range []string{"engine", "compiled"} {
				c := c
				c.Mode = mode
				rec.Begin(mode, c)
				rec.Report(t, mode, c, run(c, rec))
			}
		}
	}
}

func TestDirectedCases(t *testing.T) {
	rec := ev.Get(ID)
	rec.SetRule(rule)
	sets := []string{"goldilocks", "secp256k1fp", "bn254fr", "bls12381fp", "small3x11", "odd5x13"}
	for pi, pn := range sets {
		native := tierNatives()[pi%len(tierNatives())]
		for _, c := range directedCases(paramsByName(pn), native) {
			for _, mode := range []string{"engine", "compiled"} {
				c := c
				c.Mode = mode
				rec.Begin(mode, c)
				rec.Report(t, mode, c, run(c, rec))
			}
		}
	}
}

package c12

import (
	"math/big"

	"verifharness/lib/prog"

	"github.com/consensys/gnark/frontend"
	"github.com/consensys/gnark/std/math/emulated"
	"github.com/consensys/gnark/test"
)

// ---- custom field parameter sets defined by the harness ----------------------

// Small3x11 is a 31-bit prime on 3 limbs of 11 bits (top limb 9 bits). The
// prime is far from a power of two so that r+p fits the modulus width for many r.
type Small3x11 struct{}

func (Small3x11) NbLimbs() uint     { return 3 }
func (Small3x11) BitsPerLimb() uint { return 11 }
func (Small3x11) IsPrime() bool     { return true }
func (Small3x11) Modulus() *big.Int { return big.NewInt(1500000001) }

// Odd5x13 is a 61-bit prime (2^61-1) on 5 limbs of 13 bits (top limb 9 bits): a
// non-power-of-two limb count with an odd limb width and a modulus of the form 2^k-1.
type Odd5x13 struct{}

func (Odd5x13) NbLimbs() uint     { return 5 }
func (Odd5x13) BitsPerLimb() uint { return 13 }
func (Odd5x13) IsPrime() bool     { return true }
func (Odd5x13) Modulus() *big.Int {
	m := new(big.Int).Lsh(big.NewInt(1), 61)
	return m.Sub(m, big.NewInt(1))
}

// paramSet is the type-erased view of one emulated parameter set.
type paramSet struct {
	Name    string
	Q       *big.Int
	W       uint // bits per limb
	N       uint // number of limbs
	TopBits uint // width of the most significant limb of the modulus

	// engine runs the case in the test engine; compile/witness serve the compiled modes.
	engine  func(c *Case, pr *probe, native *big.Int, claims []*big.Int) error
	circuit func(c *Case, pr *probe) frontend.Circuit
	assign  func(c *Case, claims []*big.Int) frontend.Circuit
}

func mkParams[T emulated.FieldParams](name string) *paramSet {
	var fp T
	ps := &paramSet{Name: name, Q: new(big.Int).Set(fp.Modulus()), W: fp.BitsPerLimb(), N: fp.NbLimbs()}
	ps.TopBits = uint((fp.Modulus().BitLen()-1)%int(fp.BitsPerLimb())) + 1
	ps.circuit = func(c *Case, pr *probe) frontend.Circuit { return newCircuit[T](c, pr, ps) }
	ps.assign = func(c *Case, claims []*big.Int) frontend.Circuit { return newAssignment[T](c, ps, claims) }
	ps.engine = func(c *Case, pr *probe, native *big.Int, claims []*big.Int) error {
		return test.IsSolved(newCircuit[T](c, pr, ps), newAssignment[T](c, ps, claims), native)
	}
	return ps
}

var allParams = []*paramSet{
	mkParams[emulated.Goldilocks]("goldilocks"),
	mkParams[emulated.Secp256k1Fp]("secp256k1fp"),
	mkParams[emulated.BN254Fr]("bn254fr"),
	mkParams[emulated.BLS12381Fp]("bls12381fp"),
	mkParams[Small3x11]("small3x11"),
	mkParams[Odd5x13]("odd5x13"),
	mkParams[emulated.P384Fp]("p384fp"),
	mkParams[emulated.BabyBear]("babybear"),
	mkParams[emulated.BW6761Fp]("bw6761fp"),
}

func paramsByName(n string) *paramSet {
	for _, p := range allParams {
		if p.Name == n {
			return p
		}
	}
	return nil
}

func nativeField(n string) (f prog.Field, ok bool) {
	defer func() {
		if recover() != nil {
			ok = false
		}
	}()
	return prog.FieldByName(n), true
}

package c12

import (
	"fmt"
	"testing"

	"github.com/consensys/gnark/frontend"
	"github.com/consensys/gnark/std/math/emulated"
	"verifharness/lib/prog"
)

type dbgC struct {
	X emulated.Element[emulated.Secp256k1Fp]
}

func (c *dbgC) Define(api frontend.API) error {
	f, _ := emulated.NewField[emulated.Secp256k1Fp](api)
	m := f.Mul(&c.X, &c.X)
	a := f.Add(m, &c.X)
	s := f.Sub(a, a)
	fmt.Printf("sub limbs: %d %v\n", len(s.Limbs), s.Limbs)
	fmt.Printf("meta a=%+v s=%+v\n", readMeta(a), readMeta(s))
	r := f.Reduce(s)
	fmt.Printf("reduce limbs: %d %v\n", len(r.Limbs), r.Limbs)
	z := f.IsZero(s)
	api.AssertIsEqual(z, 1)
	return nil
}

func TestDbg3(t *testing.T) {
	_, err := prog.Compile(prog.FieldByName("bn254"), prog.R1CS, &dbgC{})
	fmt.Println(err)
}

// C04 — compiled R1CS and sparse R1CS compute exactly what the circuit specifies.
// Oracle: the independent big-integer interpreter of lib/prog (reference model).
package c04

import (
	"encoding/json"
	"fmt"
	"math/big"
	"strings"
	"testing"

	"verifharness/lib/ev"
	"verifharness/lib/prog"

	"github.com/consensys/gnark/constraint/solver"
	"github.com/consensys/gnark/frontend"
	"github.com/consensys/gnark/logger"
	"pgregory.net/rapid"
)

const ID = "C04"

func TestMain(m *testing.M) {
	logger.Disable()
	ev.RegisterReplay("prog", func(raw json.RawMessage) string {
		var c Case
		if err := json.Unmarshal(raw, &c); err != nil {
			return ""
		}
		return run(c, nil).Violation
	})
	ev.Main(m)
}

// Case is one generated test case.
type Case struct {
	Prog      *prog.Program `json:"prog"`
	Field     string        `json:"field"`
	Threshold []int         `json:"threshold"` // compress thresholds to compile with (0 = default option not passed)
	AltKinds  []string      `json:"alt_kinds"` // second labelling of the inputs (const/public/secret)
	NbTasks   int           `json:"nb_tasks"`
}

func relabel(p *prog.Program, kinds []string) *prog.Program {
	q := *p
	q.In = make([]prog.Input, len(p.In))
	copy(q.In, p.In)
	for i := range q.In {
		if i < len(kinds) {
			q.In[i].Kind = kinds[i]
		}
	}
	return &q
}

// SigDivUnchecked00 is the signature of the known SCS behaviour on 0/0.
func hasDivUnchecked00(p *prog.Program, r prog.Result) bool {
	for i, o := range p.Ops {
		if o.Op == "DivUnchecked" && (r.FailAt == -1 || i <= r.FailAt) && len(r.Slots) > o.A[0] && len(r.Slots) > o.A[1] &&
			r.Slots[o.A[0]].Sign() == 0 && r.Slots[o.A[1]].Sign() == 0 {
			return true
		}
	}
	return false
}

func run(c Case, rec *ev.Recorder) (out ev.Outcome) {
	f := prog.FieldByName(c.Field)
	labelings := []*prog.Program{c.Prog}
	if len(c.AltKinds) == len(c.Prog.In) {
		labelings = append(labelings, relabel(c.Prog, c.AltKinds))
	}
	interp := prog.Eval(c.Prog, f.Q)
	if interp.Excluded != "" {
		return ev.Outcome{Discard: true, DiscardWhy: interp.Excluded}
	}
	classes := []string{"field:" + c.Field, fmt.Sprintf("ok:%v", interp.OK)}
	nontrivial := false
	lenient := prog.EvalLenient(c.Prog, f.Q)
	div00 := hasDivUnchecked00(c.Prog, lenient)
	var naive, recorded int
	for li, p := range labelings {
		outs := interp.Outs
		if !interp.OK {
			outs = nil
			for _, s := range c.Prog.Out {
				outs = append(outs, lenient.Slots[s])
			}
		}
		for _, th := range c.Threshold {
			for _, b := range []string{prog.R1CS, prog.SCS} {
				opts := []frontend.CompileOption{frontend.IgnoreUnconstrainedInputs()}
				if th > 0 {
					opts = append(opts, frontend.WithCompressThreshold(th))
				}
				where := fmt.Sprintf("[field=%s builder=%s labelling=%d threshold=%d]", c.Field, b, li, th)
				sys, err := prog.Compile(f, b, prog.NewCircuit(p), opts...)
				if err != nil {
					if strings.HasPrefix(err.Error(), "PANIC") {
						return ev.Outcome{Violation: where + " " + err.Error()}
					}
					if interp.ZeroDiv && strings.Contains(err.Error(), "by constant(0)") {
						// divisor folded to the compile-time constant 0: documented programmer error, excluded
						if rec != nil {
							rec.Discarded("builder-run: divisor is compile-time constant 0")
						}
						continue
					}
					if interp.OK {
						return ev.Outcome{Violation: fmt.Sprintf("%s interpreter: all assertions hold, but Compile failed: %v", where, err)}
					}
					classes = append(classes, "compile-reject")
					continue
				}
				recorded += sys.GetNbConstraints()
				naive++
				w, err := prog.Witness(f, prog.Assignment(p, f.Q, outs))
				if err != nil {
					return ev.Outcome{Violation: where + " NewWitness failed: " + err.Error()}
				}
				sopts := []solver.Option{}
				if c.NbTasks > 0 {
					sopts = append(sopts, solver.WithNbTasks(c.NbTasks))
				}
				_, serr := prog.Solve(sys, w, sopts...)
				if serr != nil && strings.HasPrefix(serr.Error(), "PANIC") {
					return ev.Outcome{Violation: where + " " + serr.Error()}
				}
				if interp.OK {
					if serr != nil {
						msg := fmt.Sprintf("%s interpreter: satisfiable with outputs %v, but Solve failed: %v", where, outs, serr)
						if div00 && b == prog.SCS {
							if kf, ok := ev.OpenFinding(ID, "scs-divunchecked-0-0"); ok {
								return ev.Outcome{Known: kf.ID, Discard: true, DiscardWhy: "known finding " + kf.ID}
							}
						}
						return ev.Outcome{Violation: msg}
					}
					classes = append(classes, "solved")
					// negative control: a wrong claimed output must be rejected
					for k := range outs {
						bad := make([]*big.Int, len(outs))
						copy(bad, outs)
						bad[k] = new(big.Int).Add(outs[k], big.NewInt(1))
						bad[k].Mod(bad[k], f.Q)
						wb, _ := prog.Witness(f, prog.Assignment(p, f.Q, bad))
						if _, e := prog.Solve(sys, wb, sopts...); e == nil {
							return ev.Outcome{Violation: fmt.Sprintf("%s Solve accepted wrong output %d: %s instead of %s", where, k, bad[k], outs[k])}
						} else if strings.HasPrefix(e.Error(), "PANIC") {
							return ev.Outcome{Violation: where + " " + e.Error()}
						}
					}
				} else {
					if serr == nil {
						return ev.Outcome{Violation: fmt.Sprintf("%s interpreter: %s, but Solve succeeded", where, interp.Why)}
					}
					classes = append(classes, "solve-reject")
				}
			}
		}
	}
	// non-trivial: >= 2 ops, >= 1 recorded constraint, and a folded constant
	// operand, a failing assertion, or more than one labelling/threshold compared
	hasConst := false
	for _, in := range c.Prog.In {
		if in.Kind == "c" {
			hasConst = true
		}
	}
	nontrivial = len(c.Prog.Ops) >= 2 && recorded > 0 && (hasConst || !interp.OK || len(labelings) > 1 || len(c.Threshold) > 1)
	if hasConst {
		classes = append(classes, "has-const-input")
	}
	if !interp.OK {
		classes = append(classes, "failing-assertion")
	}
	return ev.Outcome{NonTrivial: nontrivial, Classes: classes}
}

func genCase(fields []string, cfg prog.GenConfig) *rapid.Generator[Case] {
	return rapid.Custom(func(t *rapid.T) Case {
		fn := rapid.SampledFrom(fields).Draw(t, "field")
		cfg := cfg
		cfg.Q = prog.FieldByName(fn).Q
		p := prog.Gen(cfg).Draw(t, "prog")
		c := Case{Prog: p, Field: fn}
		ths := []int{0, 2, 3, 5, 16}
		c.Threshold = []int{rapid.SampledFrom(ths).Draw(t, "th1")}
		if rapid.Bool().Draw(t, "two-thresholds") {
			c.Threshold = append(c.Threshold, rapid.SampledFrom(ths).Draw(t, "th2"))
		}
		if rapid.IntRange(0, 2).Draw(t, "relabel") != 0 {
			for range p.In {
				c.AltKinds = append(c.AltKinds, rapid.SampledFrom([]string{"c", "p", "s"}).Draw(t, "altkind"))
			}
		}
		c.NbTasks = rapid.SampledFrom([]int{0, 1, 2, 16}).Draw(t, "nbtasks")
		return c
	})
}

const rule = "rapid-generated straight-line programs over frontend.API (lib/prog), each compiled with both builders under 1-2 compression thresholds and 1-2 const/public/secret labellings, solved, and compared with the big-integer reference interpreter (plus a +1 wrong-output negative control). Non-trivial: >=2 ops, >=1 recorded constraint and (a constant input, a failing assertion, or >1 labelling/threshold compared). Distinct: SHA-256 of the case JSON."

func TestProgramsF47(t *testing.T) {
	rec := ev.Get(ID)
	rec.SetRule(rule)
	rec.Assume("the reference interpreter encodes the documented meaning of frontend/api.go")
	g := genCase([]string{"f47"}, prog.GenConfig{MaxOps: 14})
	rec.Check(t, "prog", ev.N(30000, 400000), func(rt *rapid.T) {
		c := g.Draw(rt, "case")
		rec.Begin("prog", c)
		rec.Report(rt, "prog", c, run(c, rec))
	})
}

func TestProgramsCurves(t *testing.T) {
	rec := ev.Get(ID)
	rec.SetRule(rule)
	fields := []string{"bn254", "bls12-377", "bls12-381", "bls24-315", "bls24-317", "bw6-633", "bw6-761"}
	if ev.Tier() == "thorough" {
		fields = append(fields, "babybear", "koalabear")
	}
	g := genCase(fields, prog.GenConfig{MaxOps: 10, Weights: map[string]int{"Cmp": 1, "AssertLE": 1}})
	rec.Check(t, "prog", ev.N(2500, 60000), func(rt *rapid.T) {
		c := g.Draw(rt, "case")
		rec.Begin("prog", c)
		rec.Report(rt, "prog", c, run(c, rec))
	})
}

func TestReplay(t *testing.T) { ev.Replay(t) }

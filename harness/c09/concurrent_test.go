package c09

import (
	"bytes"
	"encoding/json"
	"fmt"
	"runtime"
	"sync"
	"testing"

	"verifharness/lib/ev"
	"verifharness/lib/prog"

	"github.com/consensys/gnark/backend/groth16"
	"github.com/consensys/gnark/backend/plonk"
	"github.com/consensys/gnark/constraint"
	"github.com/consensys/gnark/frontend"
	"pgregory.net/rapid"
)

// ConcCase: several systems encoded and decoded by many goroutines at the same
// time. Serialization must not depend on what other goroutines serialize: every
// encoding produced concurrently equals the one produced alone, and every
// concurrent decode re-encodes to the same bytes.
type ConcCase struct {
	Cases []Case `json:"cases"`
	Reps  int    `json:"reps"`
}

func init() {
	ev.RegisterReplay("concurrent", func(raw json.RawMessage) string {
		var c ConcCase
		if err := json.Unmarshal(raw, &c); err != nil {
			return ""
		}
		return runConcurrent(c).Violation
	})
}

func runConcurrent(c ConcCase) ev.Outcome {
	type obj struct {
		name  string
		sys   constraint.ConstraintSystem
		ref   []byte
		fresh func() constraint.ConstraintSystem
	}
	var objs []obj
	for i, cc := range c.Cases {
		f := prog.FieldByName(cc.Field)
		if f.Small {
			continue
		}
		for _, builder := range []string{prog.R1CS, prog.SCS} {
			sys, err := prog.Compile(f, builder, circuitFor(cc, cc.Prog), frontend.IgnoreUnconstrainedInputs())
			if err != nil {
				continue
			}
			cs, ok := sys.(constraint.ConstraintSystem)
			if !ok {
				continue
			}
			o := obj{name: fmt.Sprintf("system %d (%s %s)", i, cc.Field, builder), sys: cs, ref: prog.Bytes(sys)}
			curve := f.Curve
			if builder == prog.R1CS {
				o.fresh = func() constraint.ConstraintSystem { return groth16.NewCS(curve) }
			} else {
				o.fresh = func() constraint.ConstraintSystem { return plonk.NewCS(curve) }
			}
			objs = append(objs, o)
		}
	}
	if len(objs) < 2 {
		return ev.Outcome{Discard: true, DiscardWhy: "fewer than two systems compiled"}
	}
	// sanity: alone, encoding is reproducible
	for _, o := range objs {
		if !bytes.Equal(prog.Bytes(o.sys), o.ref) {
			return ev.Outcome{Discard: true, DiscardWhy: "encoding not reproducible even sequentially (C11 territory)"}
		}
	}
	g := 4 * runtime.GOMAXPROCS(0)
	var mu sync.Mutex
	var bad []string
	for rep := 0; rep < c.Reps && len(bad) == 0; rep++ {
		var wg sync.WaitGroup
		start := make(chan struct{})
		for k := 0; k < g; k++ {
			wg.Add(1)
			go func(k int) {
				defer wg.Done()
				o := objs[k%len(objs)]
				<-start
				var msg string
				if pm := ev.Safely(func() {
					var buf bytes.Buffer
					n, err := o.sys.WriteTo(&buf)
					switch {
					case err != nil:
						msg = fmt.Sprintf("%s: concurrent WriteTo failed: %v", o.name, err)
					case int(n) != buf.Len():
						msg = fmt.Sprintf("%s: concurrent WriteTo reports %d bytes, wrote %d", o.name, n, buf.Len())
					case !bytes.Equal(buf.Bytes(), o.ref):
						msg = fmt.Sprintf("%s: bytes written while other goroutines serialize differ from the bytes written alone (%d vs %d bytes)", o.name, buf.Len(), len(o.ref))
					}
					if msg == "" && k%2 == 0 {
						d := o.fresh()
						if _, err := d.ReadFrom(bytes.NewReader(o.ref)); err != nil {
							msg = fmt.Sprintf("%s: concurrent ReadFrom of a genuine encoding failed: %v", o.name, err)
						} else if !bytes.Equal(prog.Bytes(d), o.ref) {
							msg = fmt.Sprintf("%s: system decoded while other goroutines (de)serialize re-encodes differently", o.name)
						}
					}
				}); pm != "" {
					msg = o.name + ": panic during concurrent (de)serialization: " + firstLine(pm)
				}
				if msg != "" {
					mu.Lock()
					bad = append(bad, msg)
					mu.Unlock()
				}
			}(k)
		}
		close(start)
		wg.Wait()
	}
	if len(bad) > 0 {
		return ev.Outcome{Violation: fmt.Sprintf("%d goroutines, %d systems: %s", g, len(objs), bad[0])}
	}
	return ev.Outcome{NonTrivial: true, Classes: []string{"concurrent-serialization", fmt.Sprintf("systems:%d", len(objs))}}
}

// TestConcurrentSerialization: interchangeability must not depend on what else
// is being (de)serialized in the process (shared buffers, pools, registries).
func TestConcurrentSerialization(t *testing.T) {
	rec := ev.Get(ID)
	g := genCase([]string{"bn254", "bls12-381", "bw6-761", "bls12-377"}, []string{""})
	rec.Check(t, "concurrent", ev.N(12, 300), func(rt *rapid.T) {
		c := ConcCase{Reps: 6}
		n := rapid.IntRange(3, 6).Draw(rt, "nsys")
		for i := 0; i < n; i++ {
			c.Cases = append(c.Cases, g.Draw(rt, "case"))
		}
		rec.Begin("concurrent", c)
		rec.Report(rt, "concurrent", c, runConcurrent(c))
	})
}

// C09 — serialized artifacts decode to objects that behave identically.
// Round-trip + differential oracles over constraint systems, keys, proofs and
// witnesses, every encoding variant.
package c09

import (
	"bytes"
	"encoding/json"
	"fmt"
	"io"
	"math/big"
	"strings"
	"testing"

	"verifharness/lib/cseval"
	"verifharness/lib/ev"
	"verifharness/lib/prog"
	"verifharness/lib/zk"

	"github.com/consensys/gnark/backend/groth16"
	"github.com/consensys/gnark/backend/plonk"
	"github.com/consensys/gnark/backend/witness"
	"github.com/consensys/gnark/constraint"
	"github.com/consensys/gnark/frontend"
	"github.com/consensys/gnark/logger"
	"github.com/consensys/gnark/std"
	"github.com/consensys/gnark/std/lookup/logderivlookup"
	"github.com/consensys/gnark/std/math/emulated"
	"github.com/consensys/gnark/std/rangecheck"
	"pgregory.net/rapid"
)

const ID = "C09"

func TestMain(m *testing.M) {
	logger.Disable()
	std.RegisterHints()
	ev.RegisterReplay("roundtrip", func(raw json.RawMessage) string {
		var c Case
		if err := json.Unmarshal(raw, &c); err != nil {
			return ""
		}
		return run(c).Violation
	})
	ev.Main(m)
}

// Case: a program plus optional gadget instructions appended through the hook.
type Case struct {
	Prog    *prog.Program `json:"prog"`
	Field   string        `json:"field"`
	Lookup  bool          `json:"lookup"`   // logderivlookup table with witness-dependent entries
	Range   bool          `json:"range"`    // range checks (commit or plain path)
	Emul    bool          `json:"emulated"` // one emulated multiplication (deferred check, multicommit)
	Println bool          `json:"println"`
	Keys    string        `json:"keys"` // "" | groth16 | plonk : also round-trip keys and proofs
	Alt     []prog.Val    `json:"alt"`  // second witness (may be unsatisfying)
}

func gadgets(c Case) func(api frontend.API, slots []frontend.Variable) {
	return func(api frontend.API, slots []frontend.Variable) {
		// slots[0..] are the program's values; use the first two inputs
		a := slots[0]
		b := slots[len(slots)-1]
		if c.Lookup {
			t := logderivlookup.New(api)
			for k := 0; k < 4; k++ {
				t.Insert(api.Add(api.Mul(a, k+1), k))
			}
			bits := api.ToBinary(api.Add(api.Mul(b, 0), 2), 2) // index 2, derived from a variable
			r := t.Lookup(api.FromBinary(bits...))
			api.AssertIsEqual(r[0], api.Add(api.Mul(a, 3), 2))
		}
		if c.Range {
			rc := rangecheck.New(api)
			x := api.Add(api.Mul(a, 0), 77) // 77 as a non-constant expression
			rc.Check(x, 7)
			rc.Check(api.Add(x, 1000), 11)
		}
		if c.Emul {
			f, err := emulated.NewField[emulated.Goldilocks](api)
			if err != nil {
				panic(err)
			}
			x := f.NewElement(api.Add(api.Mul(a, 0), 12345))
			y := f.Mul(x, x)
			f.AssertIsEqual(y, f.NewElement(12345*12345))
		}
		if c.Println {
			api.Println("a", a, "b", b)
		}
	}
}

func circuitFor(c Case, p *prog.Program) *prog.Circuit {
	cc := prog.NewCircuit(p)
	cc.Hook = gadgets(c)
	return cc
}

type rawWriter interface {
	WriteRawTo(io.Writer) (int64, error)
}
type unsafeReader interface {
	UnsafeReadFrom(io.Reader) (int64, error)
}
type dumper interface {
	WriteDump(io.Writer) error
	ReadDump(io.Reader) error
}

// roundTrip encodes x with enc, checks the reported byte count, decodes into
// fresh with dec from a reader followed by sentinel bytes, checks the consumed
// count and that the sentinel is untouched, and that re-encoding reproduces the bytes.
func roundTrip(what string, enc func(io.Writer) (int64, error), dec func(io.Reader) (int64, error), reenc func(io.Writer) (int64, error)) string {
	var buf bytes.Buffer
	n1, err := enc(&buf)
	if err != nil {
		return what + ": encode: " + err.Error()
	}
	if n1 != int64(buf.Len()) {
		return fmt.Sprintf("%s: encoder reports %d bytes, wrote %d", what, n1, buf.Len())
	}
	orig := append([]byte(nil), buf.Bytes()...)
	sentinel := []byte{0xde, 0xad, 0xbe, 0xef, 0x01, 0x02, 0x03, 0x04}
	r := bytes.NewReader(append(append([]byte(nil), orig...), sentinel...))
	var n2 int64
	if msg := ev.Safely(func() { n2, err = dec(r) }); msg != "" {
		return what + ": decoder panicked: " + msg
	}
	if err != nil {
		return what + ": decode of a genuine encoding failed: " + err.Error()
	}
	if n2 != n1 {
		return fmt.Sprintf("%s: decoder reports %d bytes read, encoder wrote %d", what, n2, n1)
	}
	if consumed := int64(len(orig)+len(sentinel)) - int64(r.Len()); consumed != n1 {
		return fmt.Sprintf("%s: decoder consumed %d bytes of the stream, encoding has %d (over/under-read)", what, consumed, n1)
	}
	if reenc != nil {
		var b2 bytes.Buffer
		if _, err := reenc(&b2); err != nil {
			return what + ": re-encode: " + err.Error()
		}
		if !bytes.Equal(b2.Bytes(), orig) {
			return fmt.Sprintf("%s: re-encoding the decoded object gives different bytes (%d vs %d bytes)", what, b2.Len(), len(orig))
		}
	}
	return ""
}

func firstLine(s string) string {
	if i := strings.Index(s, "\n"); i >= 0 {
		s = s[:i]
	}
	if len(s) > 200 {
		s = s[:200]
	}
	return s
}

func sameSol(a, b *cseval.Solution) bool {
	eq := func(x, y []*big.Int) bool {
		if len(x) != len(y) {
			return false
		}
		for i := range x {
			if x[i].Cmp(y[i]) != 0 {
				return false
			}
		}
		return true
	}
	return eq(a.W, b.W) && eq(a.A, b.A) && eq(a.B, b.B) && eq(a.C, b.C) && eq(a.L, b.L) && eq(a.R, b.R) && eq(a.O, b.O)
}

func run(c Case) ev.Outcome {
	f := prog.FieldByName(c.Field)
	q := f.Q
	interp := prog.Eval(c.Prog, q)
	if interp.Excluded != "" {
		return ev.Outcome{Discard: true, DiscardWhy: interp.Excluded}
	}
	lenient := prog.EvalLenient(c.Prog, q)
	outs := func(r prog.Result) []*big.Int {
		var o []*big.Int
		for _, s := range c.Prog.Out {
			o = append(o, r.Slots[s])
		}
		return o
	}
	classes := []string{"field:" + c.Field, "keys:" + c.Keys}
	kinds := 0
	for _, b := range []bool{c.Lookup, c.Range, c.Emul, c.Println} {
		if b {
			kinds++
		}
	}
	nontrivial := false
	// witnesses: the drawn one and the alternative one
	type wit struct {
		w  witness.Witness
		ok bool
	}
	var wits []wit
	w1, err := prog.Witness(f, prog.Assignment(c.Prog, q, outs(lenient)))
	if err != nil {
		return ev.Outcome{Discard: true, DiscardWhy: "witness"}
	}
	wits = append(wits, wit{w1, interp.OK})
	if len(c.Alt) == len(c.Prog.In) {
		ap := *c.Prog
		ap.In = append([]prog.Input(nil), c.Prog.In...)
		for i := range ap.In {
			ap.In[i].V = c.Alt[i]
		}
		ai := prog.EvalLenient(&ap, q)
		var ao []*big.Int
		for _, s := range ap.Out {
			ao = append(ao, ai.Slots[s])
		}
		if w2, err := prog.Witness(f, prog.Assignment(&ap, q, ao)); err == nil {
			wits = append(wits, wit{w2, ai.OK})
		}
	}
	for _, builder := range []string{prog.R1CS, prog.SCS} {
		if c.Keys == "groth16" && builder == prog.SCS || c.Keys == "plonk" && builder == prog.R1CS {
			continue
		}
		sys, err := prog.Compile(f, builder, circuitFor(c, c.Prog), frontend.IgnoreUnconstrainedInputs())
		if err != nil {
			if strings.HasPrefix(err.Error(), "PANIC") {
				return ev.Outcome{Violation: err.Error()}
			}
			return ev.Outcome{Discard: true, DiscardWhy: "compile-time rejection"}
		}
		var dec prog.System
		newCS := func() prog.System {
			if f.Small {
				return nil
			}
			if builder == prog.R1CS {
				return groth16.NewCS(f.Curve)
			}
			return plonk.NewCS(f.Curve)
		}
		if dec = newCS(); dec == nil {
			// small fields have no exported factory: round-trip through a freshly compiled empty system is not offered
			classes = append(classes, "cs-roundtrip-skipped-small-field")
			continue
		}
		if v := roundTrip("constraint system ("+builder+")", sys.WriteTo, dec.ReadFrom, dec.WriteTo); v != "" {
			return ev.Outcome{Violation: v}
		}
		pgO, err := cseval.DecodeProgram(sys)
		if err != nil {
			return ev.Outcome{Violation: err.Error()}
		}
		pgD, err := cseval.DecodeProgram(dec)
		if err != nil {
			return ev.Outcome{Violation: "decoded system: " + err.Error()}
		}
		if fmt.Sprint(pgO.Levels) != fmt.Sprint(pgD.Levels) {
			return ev.Outcome{Violation: "decoded constraint system has different Levels"}
		}
		if sys.GetNbConstraints() != dec.GetNbConstraints() || sys.GetNbInternalVariables() != dec.GetNbInternalVariables() ||
			sys.GetNbPublicVariables() != dec.GetNbPublicVariables() || sys.GetNbSecretVariables() != dec.GetNbSecretVariables() ||
			sys.GetNbCoefficients() != dec.GetNbCoefficients() || sys.GetNbInstructions() != dec.GetNbInstructions() {
			return ev.Outcome{Violation: "decoded constraint system has different counts"}
		}
		if fmt.Sprintf("%+v", sys.GetCommitments()) != fmt.Sprintf("%+v", dec.GetCommitments()) {
			return ev.Outcome{Violation: "decoded constraint system has different commitment info"}
		}
		// functional: same verdicts and (for deterministic systems) same solutions,
		// solving the decoded copy after / interleaved with the original
		for wi, wt := range wits {
			so, eo := prog.Solve(sys, wt.w)
			sd, ed := prog.Solve(dec, wt.w)
			so2, eo2 := prog.Solve(sys, wt.w)
			for _, e := range []error{eo, ed, eo2} {
				if e != nil && strings.HasPrefix(e.Error(), "PANIC") {
					return ev.Outcome{Violation: firstLine(e.Error())}
				}
			}
			if (eo == nil) != (ed == nil) || (eo == nil) != (eo2 == nil) {
				return ev.Outcome{Violation: fmt.Sprintf("witness %d: original solves=%v (%v), decoded solves=%v (%v), original again=%v", wi, eo == nil, eo, ed == nil, ed, eo2 == nil)}
			}
			if eo == nil && len(sys.GetCommitments().CommitmentIndexes()) == 0 {
				a, _ := cseval.Decode(so)
				b, _ := cseval.Decode(sd)
				a2, _ := cseval.Decode(so2)
				if !sameSol(a, b) || !sameSol(a, a2) {
					return ev.Outcome{Violation: fmt.Sprintf("witness %d: decoded system solves to a different solution", wi)}
				}
			}
		}
		if kinds >= 1 || len(sys.GetCommitments().CommitmentIndexes()) > 0 || pgO.HasHint {
			nontrivial = true
		}
		classes = append(classes, "cs:"+builder)
		if !interp.OK || c.Keys == "" {
			continue
		}
		// keys and proofs
		csO := sys.(constraint.ConstraintSystem)
		csD := dec.(constraint.ConstraintSystem)
		pub, _ := w1.Public()
		pubVals := zk.WitnessValues(pub)
		badVals := append([]*big.Int(nil), pubVals...)
		if len(badVals) > 0 {
			badVals[0] = new(big.Int).Mod(new(big.Int).Add(badVals[0], big.NewInt(1)), q)
		}
		bad, _ := zk.WitnessFrom(q, badVals, nil)
		if builder == prog.R1CS {
			pk, vk, err := groth16.Setup(csO)
			if err != nil {
				return ev.Outcome{Discard: true, DiscardWhy: "setup failed (C03)"}
			}
			pks := []groth16.ProvingKey{pk}
			vks := []groth16.VerifyingKey{vk}
			// pk encodings
			for _, mode := range []string{"compressed", "raw", "raw-unsafe", "dump"} {
				np := groth16.NewProvingKey(f.Curve)
				var v string
				switch mode {
				case "compressed":
					v = roundTrip("groth16 pk "+mode, pk.WriteTo, np.ReadFrom, np.WriteTo)
				case "raw":
					v = roundTrip("groth16 pk "+mode, pk.WriteRawTo, np.ReadFrom, np.WriteRawTo)
				case "raw-unsafe":
					v = roundTrip("groth16 pk "+mode, pk.WriteRawTo, np.UnsafeReadFrom, np.WriteRawTo)
				case "dump":
					var b bytes.Buffer
					if err := pk.WriteDump(&b); err != nil {
						v = "groth16 pk dump: " + err.Error()
					} else if err := np.ReadDump(bytes.NewReader(b.Bytes())); err != nil {
						v = "groth16 pk ReadDump: " + err.Error()
					} else {
						var b2 bytes.Buffer
						np.WriteDump(&b2)
						if !bytes.Equal(b.Bytes(), b2.Bytes()) {
							v = "groth16 pk: re-dump differs"
						}
					}
				}
				if v != "" {
					return ev.Outcome{Violation: v}
				}
				if pk.IsDifferent(np) {
					return ev.Outcome{Violation: "groth16 pk decoded (" + mode + ") IsDifferent from the original"}
				}
				pks = append(pks, np)
			}
			for _, mode := range []string{"compressed", "raw", "raw-unsafe"} {
				nv := groth16.NewVerifyingKey(f.Curve)
				var v string
				switch mode {
				case "compressed":
					v = roundTrip("groth16 vk "+mode, vk.WriteTo, nv.ReadFrom, nv.WriteTo)
				case "raw":
					v = roundTrip("groth16 vk "+mode, vk.WriteRawTo, nv.ReadFrom, nv.WriteRawTo)
				case "raw-unsafe":
					v = roundTrip("groth16 vk "+mode, vk.WriteRawTo, nv.UnsafeReadFrom, nv.WriteRawTo)
				}
				if v != "" {
					return ev.Outcome{Violation: v}
				}
				if vk.IsDifferent(nv) {
					return ev.Outcome{Violation: "groth16 vk decoded (" + mode + ") IsDifferent from the original"}
				}
				vks = append(vks, nv)
			}
			// cross matrix
			for ci, cs := range []constraint.ConstraintSystem{csO, csD} {
				for pi, p := range pks {
					if ci == 1 && pi > 1 && pi < len(pks)-1 {
						continue
					}
					proof, err := groth16.Prove(cs, p, w1)
					if err != nil {
						return ev.Outcome{Violation: fmt.Sprintf("groth16.Prove with cs %d (0=orig,1=decoded) and pk %d (0=orig, then decoded variants) failed: %v", ci, pi, err)}
					}
					np := groth16.NewProof(f.Curve)
					if v := roundTrip("groth16 proof compressed", proof.WriteTo, np.ReadFrom, np.WriteTo); v != "" {
						return ev.Outcome{Violation: v}
					}
					np2 := groth16.NewProof(f.Curve)
					if v := roundTrip("groth16 proof raw", proof.(rawWriter).WriteRawTo, np2.ReadFrom, np2.(rawWriter).WriteRawTo); v != "" {
						return ev.Outcome{Violation: v}
					}
					for vi, v := range vks {
						for qi, pr := range []groth16.Proof{proof, np, np2} {
							if err := zk.VerifyG16(pr, v, pub); err != nil {
								return ev.Outcome{Violation: fmt.Sprintf("groth16: proof (cs %d, pk %d, proof form %d) rejected by vk %d: %v", ci, pi, qi, vi, err)}
							}
						}
						if err := zk.VerifyG16(np, v, bad); err == nil {
							return ev.Outcome{Violation: fmt.Sprintf("groth16: decoded vk %d accepts a wrong public input", vi)}
						}
					}
				}
			}
			classes = append(classes, "keys:groth16-matrix")
		} else {
			pl, err := zk.NewPlonkFromCS(f, csO, nil)
			if err != nil {
				return ev.Outcome{Discard: true, DiscardWhy: "plonk setup failed (C03)"}
			}
			pks := []plonk.ProvingKey{pl.PK}
			vks := []plonk.VerifyingKey{pl.VK}
			for _, mode := range []string{"compressed", "raw", "raw-unsafe"} {
				np := plonk.NewProvingKey(f.Curve)
				var v string
				switch mode {
				case "compressed":
					v = roundTrip("plonk pk "+mode, pl.PK.WriteTo, np.ReadFrom, np.WriteTo)
				case "raw":
					v = roundTrip("plonk pk "+mode, pl.PK.WriteRawTo, np.ReadFrom, np.WriteRawTo)
				case "raw-unsafe":
					v = roundTrip("plonk pk "+mode, pl.PK.WriteRawTo, np.UnsafeReadFrom, np.WriteRawTo)
				}
				if v != "" {
					return ev.Outcome{Violation: v}
				}
				pks = append(pks, np)
				nv := plonk.NewVerifyingKey(f.Curve)
				switch mode {
				case "compressed":
					v = roundTrip("plonk vk "+mode, pl.VK.WriteTo, nv.ReadFrom, nv.WriteTo)
				case "raw":
					v = roundTrip("plonk vk "+mode, pl.VK.WriteRawTo, nv.ReadFrom, nv.WriteRawTo)
				case "raw-unsafe":
					v = roundTrip("plonk vk "+mode, pl.VK.WriteRawTo, nv.UnsafeReadFrom, nv.WriteRawTo)
				}
				if v != "" {
					return ev.Outcome{Violation: v}
				}
				vks = append(vks, nv)
			}
			for ci, cs := range []constraint.ConstraintSystem{csO, csD} {
				for pi, p := range pks {
					if ci == 1 && pi > 1 {
						continue
					}
					proof, err := plonk.Prove(cs, p, w1)
					if err != nil {
						return ev.Outcome{Violation: fmt.Sprintf("plonk.Prove with cs %d and pk %d failed: %v", ci, pi, err)}
					}
					np := plonk.NewProof(f.Curve)
					if v := roundTrip("plonk proof compressed", proof.WriteTo, np.ReadFrom, np.WriteTo); v != "" {
						return ev.Outcome{Violation: v}
					}
					np2 := plonk.NewProof(f.Curve)
					if v := roundTrip("plonk proof raw", proof.(rawWriter).WriteRawTo, np2.ReadFrom, np2.(rawWriter).WriteRawTo); v != "" {
						return ev.Outcome{Violation: v}
					}
					for vi, v := range vks {
						for qi, pr := range []plonk.Proof{proof, np, np2} {
							if err := zk.VerifyPlonk(pr, v, pub); err != nil {
								return ev.Outcome{Violation: fmt.Sprintf("plonk: proof (cs %d, pk %d, proof form %d) rejected by vk %d: %v", ci, pi, qi, vi, err)}
							}
						}
						if err := zk.VerifyPlonk(np, v, bad); err == nil {
							return ev.Outcome{Violation: fmt.Sprintf("plonk: decoded vk %d accepts a wrong public input", vi)}
						}
					}
				}
			}
			classes = append(classes, "keys:plonk-matrix")
		}
		nontrivial = true
	}
	// witness binary encoding
	for _, wt := range wits {
		w2, _ := witness.New(q)
		if v := roundTrip("witness", wt.w.WriteTo, w2.ReadFrom, w2.WriteTo); v != "" {
			return ev.Outcome{Violation: v}
		}
	}
	for _, b := range []struct {
		on bool
		n  string
	}{{c.Lookup, "lookup"}, {c.Range, "rangecheck"}, {c.Emul, "emulated"}, {c.Println, "println"}} {
		if b.on {
			classes = append(classes, "gadget:"+b.n)
		}
	}
	return ev.Outcome{NonTrivial: nontrivial, Classes: classes}
}

func genCase(fields []string, keys []string) *rapid.Generator[Case] {
	return rapid.Custom(func(t *rapid.T) Case {
		fn := rapid.SampledFrom(fields).Draw(t, "field")
		f := prog.FieldByName(fn)
		c := Case{Field: fn, Keys: rapid.SampledFrom(keys).Draw(t, "keys")}
		if c.Keys != "" {
			c.Prog = zk.GenProvable(zk.ProvableCfg{Q: f.Q, MaxOps: 6, MaxCommits: 2, PFail: 3}).Draw(t, "prog")
		} else {
			c.Prog = prog.Gen(prog.GenConfig{Q: f.Q, MaxOps: 8, NoHeavy: true, MinPub: 1, PFail: 10, Weights: map[string]int{"Commit": 0, "Println": 2}}).Draw(t, "prog")
		}
		c.Lookup = rapid.IntRange(0, 2).Draw(t, "lookup") == 0
		c.Range = rapid.IntRange(0, 2).Draw(t, "range") == 0
		c.Emul = rapid.IntRange(0, 5).Draw(t, "emul") == 0
		c.Println = rapid.IntRange(0, 3).Draw(t, "println") == 0
		if f.Small {
			c.Emul, c.Range, c.Lookup = false, false, false
		}
		for i := range c.Prog.In {
			if rapid.IntRange(0, 1).Draw(t, "keep") == 0 {
				c.Alt = append(c.Alt, c.Prog.In[i].V)
			} else {
				c.Alt = append(c.Alt, prog.GenVal(t, "alt"))
			}
		}
		return c
	})
}

const rule = "rapid-generated programs (generic and specialised gates, hints, commitments) optionally extended with a witness-dependent lookup table, range checks, an emulated multiplication (deferred check + multicommit) and Println logs; both builders; all 7 curves. For the system, Groth16/PLONK proving and verifying keys (compressed, raw, raw+UnsafeReadFrom, memory dump), proofs (compressed, raw) and witnesses: reported byte count == bytes written == bytes consumed (reader followed by sentinel bytes), re-encoding reproduces the bytes, decoded system has the same levels/counts/commitment info and solves every witness to the same verdict and solution (also interleaved with the original), full cross matrix {orig,decoded} cs x pk -> prove, x vk -> verify, decoded vk rejects a wrong public input. Non-trivial: system contains a gadget instruction, hint or commitment, or keys are round-tripped. Distinct: SHA-256 of the case JSON."

var allCurves = []string{"bn254", "bls12-377", "bls12-381", "bls24-315", "bls24-317", "bw6-633", "bw6-761"}

func TestRoundTripSystems(t *testing.T) {
	rec := ev.Get(ID)
	rec.SetRule(rule)
	rec.Note("observed, not asserted: plonk VerifyingKey.WriteRawTo writes compressed points (its raw option is not applied); it still round-trips and behaves identically, which is all C09 states")
	g := genCase(allCurves, []string{""})
	rec.Check(t, "roundtrip", ev.N(320, 5000), func(rt *rapid.T) {
		c := g.Draw(rt, "case")
		rec.Begin("roundtrip", c)
		rec.Report(rt, "roundtrip", c, run(c))
	})
}

func TestRoundTripKeys(t *testing.T) {
	rec := ev.Get(ID)
	rec.SetRule(rule)
	curves := allCurves
	if ev.Tier() == "quick" {
		curves = []string{"bn254", "bn254", "bls12-381", "bls12-377", "bw6-761", "bls24-315"}
	}
	g := genCase(curves, []string{"groth16", "plonk"})
	rec.Check(t, "roundtrip", ev.N(100, 3000), func(rt *rapid.T) {
		c := g.Draw(rt, "case")
		rec.Begin("roundtrip", c)
		rec.Report(rt, "roundtrip", c, run(c))
	})
}

// ---- large systems: sizes around the powers of two where container limits live

// LargeCase is a system whose serialized body holds very long collections.
type LargeCase struct {
	Shape   string `json:"shape"`   // inputs | table
	N       int    `json:"n"`       // number of secret inputs / table entries
	Builder string `json:"builder"`
}

type largeCircuit struct {
	In  []frontend.Variable
	Out frontend.Variable `gnark:",public"`
	c   *LargeCase
}

func (c *largeCircuit) Define(api frontend.API) error {
	switch c.c.Shape {
	case "inputs":
		acc := frontend.Variable(0)
		for i := 0; i < len(c.In); i += 64 {
			hi := i + 64
			if hi > len(c.In) {
				hi = len(c.In)
			}
			acc = api.Add(acc, c.In[i], c.In[i+1:hi]...)
		}
		api.AssertIsEqual(c.Out, acc)
	case "table":
		t := logderivlookup.New(api)
		for i := 0; i < c.c.N; i++ {
			t.Insert(i * 3)
		}
		r := t.Lookup(c.In[0], c.In[1], c.In[2])
		api.AssertIsEqual(c.Out, api.Add(r[0], r[1], r[2]))
	}
	return nil
}

func runLarge(c LargeCase) ev.Outcome {
	f := prog.FieldByName("bn254")
	nIn := c.N
	if c.Shape == "table" {
		nIn = 3
	}
	circ := &largeCircuit{In: make([]frontend.Variable, nIn), c: &c}
	sys, err := prog.Compile(f, c.Builder, circ)
	if err != nil {
		return ev.Outcome{Violation: "compile of a large but ordinary circuit failed: " + firstLine(err.Error())}
	}
	var dec prog.System
	if c.Builder == prog.R1CS {
		dec = groth16.NewCS(f.Curve)
	} else {
		dec = plonk.NewCS(f.Curve)
	}
	if v := roundTrip(fmt.Sprintf("large constraint system (%s, %s, n=%d)", c.Builder, c.Shape, c.N), sys.WriteTo, dec.ReadFrom, dec.WriteTo); v != "" {
		return ev.Outcome{Violation: v}
	}
	assign := &largeCircuit{In: make([]frontend.Variable, nIn), c: &c}
	sum := 0
	for i := range assign.In {
		v := i % 7
		if c.Shape == "table" {
			v = (i*977 + 5) % c.N
			sum += v * 3
		} else {
			sum += v
		}
		assign.In[i] = v
	}
	assign.Out = sum
	w, err := frontend.NewWitness(assign, f.Q)
	if err != nil {
		return ev.Outcome{Violation: "witness: " + err.Error()}
	}
	if _, err := prog.Solve(sys, w); err != nil {
		return ev.Outcome{Violation: "original large system does not solve: " + firstLine(err.Error())}
	}
	if _, err := prog.Solve(dec, w); err != nil {
		return ev.Outcome{Violation: "decoded large system does not solve what the original solves: " + firstLine(err.Error())}
	}
	return ev.Outcome{NonTrivial: true, Classes: []string{"large:" + c.Shape, "large:" + c.Builder}}
}

func TestRoundTripLarge(t *testing.T) {
	rec := ev.Get(ID)
	rec.SetRule("large systems: 2^17+8 .. 2^17+5000 secret inputs, lookup tables of 44k-70k entries (collections of the serialized body beyond 2^16 / 2^17 elements), bn254, both builders: same round-trip and solve oracles")
	ev.RegisterReplay("large", func(raw json.RawMessage) string {
		var c LargeCase
		if json.Unmarshal(raw, &c) != nil {
			return ""
		}
		return runLarge(c).Violation
	})
	seed := int(ev.Seed()) + ev.Shard()
	cases := []LargeCase{
		{Shape: "inputs", N: 1<<17 + 8 + (seed*131)%5000, Builder: []string{prog.R1CS, prog.SCS}[seed%2]},
		{Shape: "table", N: 44000 + (seed*977)%26000, Builder: []string{prog.SCS, prog.R1CS}[seed%2]},
	}
	if ev.Tier() == "thorough" {
		cases = append(cases,
			LargeCase{Shape: "inputs", N: 1<<17 + 8 + (seed*131)%5000, Builder: []string{prog.SCS, prog.R1CS}[seed%2]},
			LargeCase{Shape: "table", N: 44000 + (seed*977)%26000, Builder: []string{prog.R1CS, prog.SCS}[seed%2]},
			LargeCase{Shape: "inputs", N: 1<<16 + 3, Builder: prog.R1CS})
	}
	for _, c := range cases {
		o := runLarge(c)
		if o.Violation != "" {
			p := rec.Violate("large", c, o.Violation)
			t.Fatalf("VIOLATION %s replay=%s: %s", ID, p, o.Violation)
		}
		rec.Count("large", c, true, o.Classes...)
	}
}

func TestReplay(t *testing.T) { ev.Replay(t) }

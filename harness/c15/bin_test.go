package c15

import (
	"crypto/sha256"
	"encoding/json"
	"fmt"
	"hash"
	"os"
	"sort"
	"strconv"
	"sync"
	"testing"

	"verifharness/lib/ev"
	"verifharness/lib/prog"

	"github.com/consensys/gnark/frontend"
	zkhash "github.com/consensys/gnark/std/hash"
	zkripemd "github.com/consensys/gnark/std/hash/ripemd160"
	zksha2 "github.com/consensys/gnark/std/hash/sha2"
	zksha3 "github.com/consensys/gnark/std/hash/sha3"
	"github.com/consensys/gnark/std/math/uints"
	"github.com/consensys/gnark/test"
	"golang.org/x/crypto/ripemd160"
	"golang.org/x/crypto/sha3"
	"pgregory.net/rapid"
)

// ---- the byte-oriented hashers ---------------------------------------------------------

type binSpec struct {
	name  string
	block int // block size / sponge rate in bytes
	size  int // digest size
	md    bool // Merkle-Damgard with 1+8 bytes of mandatory padding (else: sponge with >= 1 byte)
	fixed bool // offers FixedLengthSum
	ref   func() hash.Hash
	zk    func(api frontend.API, opts ...zkhash.Option) (zkhash.BinaryHasher, error)
}

func fixedCtor(f func(frontend.API, ...zkhash.Option) (zkhash.BinaryFixedLengthHasher, error)) func(frontend.API, ...zkhash.Option) (zkhash.BinaryHasher, error) {
	return func(api frontend.API, opts ...zkhash.Option) (zkhash.BinaryHasher, error) { return f(api, opts...) }
}

var binSpecs = []binSpec{
	{"sha256", 64, 32, true, true, sha256.New, fixedCtor(zksha2.New)},
	{"ripemd160", 64, 20, true, false, ripemd160.New, func(api frontend.API, _ ...zkhash.Option) (zkhash.BinaryHasher, error) {
		return zkripemd.New(api)
	}},
	{"sha3-256", 136, 32, false, true, sha3.New256, fixedCtor(zksha3.New256)},
	{"sha3-384", 104, 48, false, true, sha3.New384, fixedCtor(zksha3.New384)},
	{"sha3-512", 72, 64, false, true, sha3.New512, fixedCtor(zksha3.New512)},
	{"keccak-256", 136, 32, false, true, sha3.NewLegacyKeccak256, fixedCtor(zksha3.NewLegacyKeccak256)},
	{"keccak-512", 72, 64, false, true, sha3.NewLegacyKeccak512, fixedCtor(zksha3.NewLegacyKeccak512)},
}

func specOf(name string) *binSpec {
	for i := range binSpecs {
		if binSpecs[i].name == name {
			return &binSpecs[i]
		}
	}
	return nil
}

// calls is the number of compression / permutation calls the reference needs for l bytes.
func (s *binSpec) calls(l int) int {
	if s.md {
		return (l+8)/s.block + 1
	}
	return l/s.block + 1
}

// boundaries lists the lengths up to max at which the padding logic changes path.
func (s *binSpec) boundaries(max int) []int {
	var r []int
	for k := 1; k*s.block-9 <= max+1; k++ {
		if s.md {
			r = append(r, k*s.block-9, k*s.block-8, k*s.block) // last length whose padding fits, first that spills, full block
		} else {
			r = append(r, k*s.block-2, k*s.block-1, k*s.block) // pad = ds,0x80 | pad = ds^0x80 | pad fills a new block
		}
	}
	return r
}

func (s *binSpec) near(l int) bool {
	for _, b := range s.boundaries(l + 1) {
		if l-b <= 1 && b-l <= 1 {
			return true
		}
	}
	return false
}

// boundaryLengths is 0, 1 and every boundary +-1 up to max.
func (s *binSpec) boundaryLengths(max int) []int {
	set := map[int]bool{0: true, 1: true}
	for _, b := range s.boundaries(max) {
		for d := -1; d <= 1; d++ {
			if b+d >= 0 && b+d <= max {
				set[b+d] = true
			}
		}
	}
	var r []int
	for l := range set {
		r = append(r, l)
	}
	sort.Ints(r)
	return r
}

// ---- case ------------------------------------------------------------------------------------

// BinItem is one message hashed by one hasher instance.
type BinItem struct {
	Hash   string `json:"hash"`
	Msg    []byte `json:"msg"`    // the bytes written (mode fixed: the declared maximum, bytes beyond Len are garbage)
	Chunks []int  `json:"chunks"` // sizes of the successive Write calls (sum = len(Msg)); empty = no Write call
	Mode   string `json:"mode"`   // "sum" | "fixed"
	Len    int    `json:"len,omitempty"`
	MinLen int    `json:"min_len,omitempty"` // mode fixed: hash.WithMinimalLength (0 = option not passed)
	Tamper int    `json:"tamper,omitempty"`  // k>0: bit k-1 of the reference digest is flipped in the assignment => must be unsatisfiable
}

// BinBatch is a circuit hashing several messages (the 3 x 65536-entry lookup tables of
// std/math/uints are built once per circuit, so batching amortises them).
type BinBatch struct {
	Field  string    `json:"field"`
	Engine string    `json:"engine"` // "test" | "r1cs" | "scs"
	Items  []BinItem `json:"items"`
}

func (it BinItem) hashedLen() int {
	if it.Mode == "fixed" {
		return it.Len
	}
	return len(it.Msg)
}

func (it BinItem) expectUnsat() bool {
	return it.Tamper > 0 || (it.Mode == "fixed" && it.Len < it.MinLen)
}

func (it BinItem) valid() string {
	s := specOf(it.Hash)
	if s == nil {
		return "unknown hash"
	}
	n := 0
	for _, c := range it.Chunks {
		if c < 0 {
			return "negative chunk"
		}
		n += c
	}
	if n != len(it.Msg) {
		return "chunks do not add up"
	}
	switch it.Mode {
	case "sum":
	case "fixed":
		if !s.fixed {
			return "no FixedLengthSum"
		}
		if it.Len < 0 || it.Len > len(it.Msg) || it.MinLen < 0 || it.MinLen > len(it.Msg) {
			return "length outside [0, declared max]"
		}
	default:
		return "bad mode"
	}
	if it.Tamper < 0 || it.Tamper > 8*s.size {
		return "bad tamper"
	}
	return ""
}

func (it BinItem) reference() []byte {
	s := specOf(it.Hash)
	h := s.ref()
	h.Write(it.Msg[:it.hashedLen()])
	d := h.Sum(nil)
	if it.Tamper > 0 {
		d[(it.Tamper-1)/8] ^= 1 << uint((it.Tamper-1)%8)
	}
	return d
}

func contentClass(b []byte) string {
	if len(b) == 0 {
		return "content:empty"
	}
	z, f, pop := true, true, 0
	for _, x := range b {
		if x != 0 {
			z = false
		}
		if x != 0xff {
			f = false
		}
		for ; x != 0; x &= x - 1 {
			pop++
		}
	}
	switch {
	case z:
		return "content:all-zero"
	case f:
		return "content:all-ff"
	case pop == 1:
		return "content:single-bit"
	}
	return "content:random"
}

func (it BinItem) nontrivial() bool {
	s := specOf(it.Hash)
	l := it.hashedLen()
	return s.near(l) || s.calls(l) >= 2 || (it.Mode == "fixed" && it.Len < len(it.Msg))
}

func (it BinItem) classes(engine, field string) []string {
	s := specOf(it.Hash)
	l := it.hashedLen()
	cl := []string{"bin:" + it.Hash + ":" + it.Mode, "engine:" + engine, "bin-field:" + field, contentClass(it.Msg[:l])}
	cl = append(cl, "bin:"+it.Hash+":"+engine)
	r := l % s.block
	switch {
	case l == 0:
		cl = append(cl, "len:0")
	case r == 0:
		cl = append(cl, "len:=k*block")
	case r == s.block-1:
		cl = append(cl, "len:=k*block-1")
	case r == 1 && l > 1:
		cl = append(cl, "len:=k*block+1")
	}
	if s.md {
		switch r {
		case s.block - 9:
			cl = append(cl, "len:pad-fits-exactly")
		case s.block - 8:
			cl = append(cl, "len:pad-spills")
		}
	} else if r == s.block-2 {
		cl = append(cl, "len:=k*block-2")
	}
	if s.near(l) {
		cl = append(cl, "len:near-boundary")
	}
	cl = append(cl, fmt.Sprintf("calls:%d", min(s.calls(l), 4)))
	switch {
	case len(it.Chunks) == 0:
		cl = append(cl, "chunks:no-write")
	case len(it.Chunks) == 1:
		cl = append(cl, "chunks:1")
	case len(it.Chunks) == len(it.Msg):
		cl = append(cl, "chunks:bytewise")
	default:
		cl = append(cl, "chunks:several")
	}
	for _, c := range it.Chunks {
		if c == 0 && len(it.Chunks) > 1 {
			cl = append(cl, "chunks:has-empty-write")
			break
		}
	}
	if it.Mode == "fixed" {
		switch {
		case it.Len == len(it.Msg):
			cl = append(cl, "fixed:len=max")
		case s.calls(it.Len) < s.calls(len(it.Msg)):
			cl = append(cl, "fixed:len<max,fewer-blocks")
		default:
			cl = append(cl, "fixed:len<max,same-blocks")
		}
		if it.MinLen > 0 {
			cl = append(cl, "fixed:min>0")
			if it.MinLen == it.Len {
				cl = append(cl, "fixed:len=min")
			}
			if it.MinLen/s.block > 0 {
				cl = append(cl, "fixed:min>=1block")
			}
		}
		if len(it.Msg) == 0 {
			cl = append(cl, "fixed:max=0")
		}
		if it.Len < it.MinLen {
			cl = append(cl, "neg:below-min")
		}
	}
	if it.Tamper > 0 {
		cl = append(cl, "neg:tampered-digest")
	}
	return cl
}

// ---- circuit ---------------------------------------------------------------------------------

type binCircuit struct {
	In  [][]uints.U8
	Exp [][]uints.U8
	Len []frontend.Variable // one per mode-fixed item, in order

	items []BinItem // shape only: hash, chunk sizes, mode, minimal length
}

func (c *binCircuit) Define(api frontend.API) error {
	u, err := uints.New[uints.U32](api)
	if err != nil {
		return err
	}
	li := 0
	for i, it := range c.items {
		s := specOf(it.Hash)
		var opts []zkhash.Option
		if it.Mode == "fixed" && it.MinLen > 0 {
			opts = append(opts, zkhash.WithMinimalLength(it.MinLen))
		}
		h, err := s.zk(api, opts...)
		if err != nil {
			return fmt.Errorf("item %d: constructor: %w", i, err)
		}
		off := 0
		for _, n := range it.Chunks {
			h.Write(c.In[i][off : off+n])
			off += n
		}
		var res []uints.U8
		if it.Mode == "fixed" {
			res = h.(zkhash.BinaryFixedLengthHasher).FixedLengthSum(c.Len[li])
			li++
		} else {
			res = h.Sum()
		}
		if len(res) != s.size || h.Size() != s.size {
			return fmt.Errorf("item %d: SIZE-MISMATCH digest has %d bytes, Size() = %d, reference %d", i, len(res), h.Size(), s.size)
		}
		for j := range res {
			u.ByteAssertEq(c.Exp[i][j], res[j])
		}
	}
	return nil
}

func binShape(b BinBatch) *binCircuit {
	c := &binCircuit{}
	for _, it := range b.Items {
		c.In = append(c.In, make([]uints.U8, len(it.Msg)))
		c.Exp = append(c.Exp, make([]uints.U8, specOf(it.Hash).size))
		if it.Mode == "fixed" {
			c.Len = append(c.Len, 0)
		}
		c.items = append(c.items, BinItem{Hash: it.Hash, Chunks: it.Chunks, Mode: it.Mode, MinLen: it.MinLen})
	}
	return c
}

func binAssignment(b BinBatch) *binCircuit {
	c := &binCircuit{}
	for _, it := range b.Items {
		c.In = append(c.In, uints.NewU8Array(it.Msg))
		c.Exp = append(c.Exp, uints.NewU8Array(it.reference()))
		if it.Mode == "fixed" {
			c.Len = append(c.Len, it.Len)
		}
	}
	return c
}

// A few compiled systems are kept (an optimisation only: consecutive cases of the
// enumerations share their shape and differ in contents).
type binCacheEntry struct {
	once sync.Once
	sys  prog.System
	err  error
}

var (
	binCacheMu    sync.Mutex
	binCache      = map[string]*binCacheEntry{}
	binCacheOrder []string
)

func binKey(b BinBatch) string {
	kb, _ := json.Marshal(binShape(b).items)
	return b.Engine + "|" + b.Field + "|" + string(kb)
}

func binCacheDrop(key string) {
	binCacheMu.Lock()
	delete(binCache, key)
	binCacheMu.Unlock()
}

func binCompile(b BinBatch, f prog.Field) (prog.System, error) {
	key := binKey(b)
	binCacheMu.Lock()
	e, ok := binCache[key]
	if !ok {
		e = &binCacheEntry{}
		binCache[key] = e
		binCacheOrder = append(binCacheOrder, key)
		for len(binCacheOrder) > 4 {
			delete(binCache, binCacheOrder[0])
			binCacheOrder = binCacheOrder[1:]
		}
	}
	binCacheMu.Unlock()
	e.once.Do(func() { e.sys, e.err = prog.Compile(f, b.Engine, binShape(b)) })
	return e.sys, e.err
}

// execBin runs the batch and returns the error of the engine (nil = satisfied).
func execBin(b BinBatch) (err error, stage string) {
	f, _ := fieldOf(b.Field)
	switch b.Engine {
	case "test":
		return test.IsSolved(binShape(b), binAssignment(b), f.Q), "test engine"
	case prog.R1CS, prog.SCS:
		sys, err := binCompile(b, f)
		if err != nil {
			return err, "compile"
		}
		w, err := prog.Witness(f, binAssignment(b))
		if err != nil {
			return err, "witness"
		}
		_, err = prog.Solve(sys, w)
		return err, "solve"
	}
	return fmt.Errorf("unknown engine"), "harness"
}

func single(b BinBatch, i int) BinBatch {
	return BinBatch{Field: b.Field, Engine: b.Engine, Items: []BinItem{b.Items[i]}}
}

// checkBin evaluates a batch. On a violation it returns the message and the smallest failing
// batch it could isolate (a single item when the item fails on its own).
func checkBin(b BinBatch) (viol string, culprit BinBatch, discard string) {
	if _, ok := fieldOf(b.Field); !ok {
		return "", b, "unknown field"
	}
	if len(b.Items) == 0 {
		return "", b, "empty batch"
	}
	unsat := false
	for _, it := range b.Items {
		if why := it.valid(); why != "" {
			return "", b, why
		}
		unsat = unsat || it.expectUnsat()
	}
	where := fmt.Sprintf("[engine=%s field=%s]", b.Engine, b.Field)
	err, stage := execBin(b)
	if stage == "witness" || stage == "harness" {
		return "", b, "harness: " + short(err)
	}
	if unsat {
		if err == nil {
			return fmt.Sprintf("%s circuit satisfied although %s", where, describeNeg(b)), b, ""
		}
		if stage == "compile" {
			return fmt.Sprintf("%s Compile failed: %s", where, short(err)), b, ""
		}
		if goPanic(err) && !onlyBelowMin(b) {
			return fmt.Sprintf("%s Go runtime panic instead of an unsatisfied constraint (%s): %s", where, describeNeg(b), short(err)), b, ""
		}
		return "", b, ""
	}
	if err == nil {
		return "", b, ""
	}
	// isolate
	if len(b.Items) > 1 {
		for i := range b.Items {
			if e, st := execBin(single(b, i)); e != nil {
				return fmt.Sprintf("%s %s rejects the reference digest: %s: %s", where, st, describeItem(b.Items[i]), short(e)), single(b, i), ""
			}
		}
	}
	return fmt.Sprintf("%s %s rejects the reference digests of %d items (%s …): %s", where, stage, len(b.Items), describeItem(b.Items[0]), short(err)), b, ""
}

func onlyBelowMin(b BinBatch) bool {
	for _, it := range b.Items {
		if it.Tamper > 0 {
			return false
		}
	}
	return true
}

func describeItem(it BinItem) string {
	s := fmt.Sprintf("%s %s len(written)=%d chunks=%v", it.Hash, it.Mode, len(it.Msg), it.Chunks)
	if len(it.Chunks) > 12 {
		s = fmt.Sprintf("%s %s len(written)=%d chunks=%d pieces", it.Hash, it.Mode, len(it.Msg), len(it.Chunks))
	}
	if it.Mode == "fixed" {
		s += fmt.Sprintf(" length=%d minimalLength=%d", it.Len, it.MinLen)
	}
	h := specOf(it.Hash).ref()
	h.Write(it.Msg[:it.hashedLen()])
	return s + fmt.Sprintf(" reference=%x", h.Sum(nil))
}

func describeNeg(b BinBatch) string {
	for _, it := range b.Items {
		if it.Tamper > 0 {
			return fmt.Sprintf("bit %d of the expected digest was flipped (%s)", it.Tamper-1, describeItem(it))
		}
		if it.expectUnsat() {
			return fmt.Sprintf("length %d is below WithMinimalLength(%d) (%s)", it.Len, it.MinLen, describeItem(it))
		}
	}
	return "?"
}

func runBin(b BinBatch) ev.Outcome {
	v, _, d := checkBin(b)
	if d != "" {
		return ev.Outcome{Discard: true, DiscardWhy: d}
	}
	return ev.Outcome{Violation: v}
}

// reportBin records a batch: one evaluation per item; a violation goes through Report/Violate.
func reportBin(rec *ev.Recorder, f ev.Failer, b BinBatch) {
	v, culprit, d := checkBin(b)
	if d != "" {
		rec.Discarded("bin:" + d)
		return
	}
	if v != "" {
		rec.Report(f, "bin", culprit, ev.Outcome{Violation: v})
		return
	}
	for i, it := range b.Items {
		rec.Count("bin", single(b, i), it.nontrivial(), it.classes(b.Engine, b.Field)...)
	}
}

// ---- content / chunking from a byte stream ---------------------------------------------

func makeContent(p *prng, n int) []byte {
	b := make([]byte, n)
	switch k := p.intn(20); {
	case k < 3: // all zero
	case k < 6:
		for i := range b {
			b[i] = 0xff
		}
	case k < 9:
		if n > 0 {
			b[p.intn(n)] = 1 << uint(p.intn(8))
		}
	default:
		copy(b, p.bytes(n))
	}
	return b
}

func makeChunks(p *prng, n int) []int {
	switch k := p.intn(10); {
	case k < 4:
		return []int{n}
	case k == 4 && n > 0 && n <= 200:
		c := make([]int, n)
		for i := range c {
			c[i] = 1
		}
		return c
	case k == 5 && n == 0:
		return nil // no Write call at all
	}
	cuts := []int{0, n}
	for i := p.intn(5) + 1; i > 0; i-- {
		cuts = append(cuts, p.intn(n+1))
	}
	sort.Ints(cuts)
	var c []int
	for i := 1; i < len(cuts); i++ {
		c = append(c, cuts[i]-cuts[i-1])
	}
	return c
}

// packBatches splits items into batches of roughly equal cost (number of permutation calls).
func packBatches(field, engine string, items []BinItem, maxCalls int) []BinBatch {
	var out []BinBatch
	cur := BinBatch{Field: field, Engine: engine}
	cost := 0
	for _, it := range items {
		s := specOf(it.Hash)
		c := s.calls(len(it.Msg))
		if !s.md {
			c *= 2 // keccak-f is about twice a sha256 block
		}
		if len(cur.Items) > 0 && cost+c > maxCalls {
			out = append(out, cur)
			cur = BinBatch{Field: field, Engine: engine}
			cost = 0
		}
		cur.Items = append(cur.Items, it)
		cost += c
	}
	if len(cur.Items) > 0 {
		out = append(out, cur)
	}
	return out
}

// runBatches evaluates batches on w workers and reports them in order.
func runBatches(t *testing.T, rec *ev.Recorder, batches []BinBatch, w int) {
	type res struct {
		v, d    string
		culprit BinBatch
	}
	rs := make([]res, len(batches))
	parallel(len(batches), w, func(i int) {
		v, c, d := checkBin(batches[i])
		rs[i] = res{v, d, c}
	})
	for i, b := range batches {
		r := rs[i]
		if r.d != "" {
			rec.Discarded("bin:" + r.d)
			continue
		}
		if r.v != "" {
			p := rec.Violate("bin", r.culprit, r.v)
			t.Fatalf("VIOLATION %s kind=bin replay=%s: %s", ID, p, r.v)
		}
		for j, it := range b.Items {
			rec.Count("bin", single(b, j), it.nontrivial(), it.classes(b.Engine, b.Field)...)
		}
	}
}

func workers() int {
	if ev.Tier() == "thorough" {
		return 2 // 8 shards run side by side
	}
	return 10
}

// ---- tests -----------------------------------------------------------------------------------

var sha3Variants = []string{"sha3-256", "keccak-256", "sha3-512", "sha3-384", "keccak-512"}

// envScale is VERIF_SCALE (percent, development runs) for the enumerations.
func envScale() int {
	if v, err := strconv.Atoi(os.Getenv("VERIF_SCALE")); err == nil && v > 0 && v < 100 {
		return v
	}
	return 100
}

func thin[T any](l []T) []T {
	pct := envScale()
	if pct >= 100 {
		return l
	}
	var r []T
	for i, x := range l {
		if i*pct/100 != (i+1)*pct/100 || i == 0 {
			r = append(r, x)
		}
	}
	return r
}

func seq(lo, hi int) []int {
	var r []int
	for l := lo; l <= hi; l++ {
		r = append(r, l)
	}
	return r
}

// sweepLengths: the lengths of the Sum sweep of one hasher.
// full: 0 .. 3*block+2. Otherwise one full period of the padding logic and the first crossing
// (0 .. block+2) plus every later boundary +-1 up to 3*block+2 (the padding code of all three
// constructions depends on the length only through len%block and the number of blocks).
func sweepLengths(s *binSpec, full bool) (lens []int, what string) {
	max := 3*s.block + 2
	if full {
		return seq(0, max), fmt.Sprintf("0..%d", max)
	}
	upto := s.block + 2
	lens = seq(0, upto)
	what = fmt.Sprintf("0..%d + boundaries+-1 up to %d", upto, max)
	if s.block > 104 {
		// rate 136 (one permutation costs ~0.6 CPU-s in the test engine): every length in 0..16 and
		// rate-16..rate+2, every third length in between (offset by the seed). The padding path
		// depends on rate - len%rate in {1, 2, other} and on len%8 (lane packing), all still covered.
		lens = nil
		for _, l := range seq(0, upto) {
			if l <= 16 || l >= s.block-16 || (l+int(ev.Seed()))%3 == 0 {
				lens = append(lens, l)
			}
		}
		what = fmt.Sprintf("0..16, every 3rd of 17..%d, %d..%d + boundaries+-1 up to %d", s.block-17, s.block-16, upto, max)
	}
	for _, l := range s.boundaryLengths(max) {
		if l > upto {
			lens = append(lens, l)
		}
	}
	return lens, what
}

// TestBinSweep: Sum over enumerated lengths in the test engine; contents and Write chunking are
// derived from the seed. quick: sha256, ripemd160 and one sha3 variant (chosen by the seed) over
// sweepLengths(partial), boundary lengths for the other variants. thorough: 0 .. 3*block+2 for all
// seven hashers, spread over the shards.
func TestBinSweep(t *testing.T) {
	rec := ev.Get(ID)
	rec.SetRule(rule)
	p := newPRNG("sweep")
	plan := map[string]string{} // hash -> "full" | "partial" | "boundary"
	for _, s := range binSpecs {
		plan[s.name] = "boundary"
	}
	if ev.Tier() == "quick" {
		plan["sha256"], plan["ripemd160"] = "partial", "partial"
		plan[sha3Variants[int(ev.Seed())%len(sha3Variants)]] = "partial"
	} else {
		sh := ev.Shard()
		if sh < len(sha3Variants) {
			plan[sha3Variants[(sh+int(ev.Seed()))%len(sha3Variants)]] = "full"
		} else {
			plan["sha256"], plan["ripemd160"] = "full", "full"
		}
	}
	var items []BinItem
	for i := range binSpecs {
		s := &binSpecs[i]
		var lens []int
		switch plan[s.name] {
		case "full", "partial":
			var what string
			lens, what = sweepLengths(s, plan[s.name] == "full")
			rec.Extra("enumerated-lengths:"+s.name, what)
		default:
			lens = s.boundaryLengths(s.block + 1)
			if ev.Tier() == "thorough" {
				lens = s.boundaryLengths(2*s.block + 1)
			}
		}
		for _, l := range thin(lens) {
			items = append(items, BinItem{Hash: s.name, Msg: makeContent(p, l), Chunks: makeChunks(p, l), Mode: "sum"})
		}
	}
	field := "bn254"
	batches := packBatches(field, "test", items, 40)
	runBatches(t, rec, batches, workers())
	// negative controls: a flipped digest bit must be rejected
	var neg []BinBatch
	for i, b := range batches {
		if i%3 != 0 {
			continue
		}
		it := b.Items[p.intn(len(b.Items))]
		it.Tamper = 1 + p.intn(8*specOf(it.Hash).size)
		neg = append(neg, BinBatch{Field: field, Engine: "test", Items: []BinItem{it}})
	}
	runBatches(t, rec, neg, workers())
}

// genBinItem draws one item with lengths biased to the padding boundaries.
func genBinItem(hashes []string, modes []string) *rapid.Generator[BinItem] {
	return rapid.Custom(func(t *rapid.T) BinItem {
		s := specOf(rapid.SampledFrom(hashes).Draw(t, "hash"))
		mode := rapid.SampledFrom(modes).Draw(t, "mode")
		if !s.fixed {
			mode = "sum"
		}
		max := 3*s.block + 2
		if mode == "fixed" {
			max = 2*s.block + 2
		}
		drawLen := func(label string, lo, hi int) int {
			if lo >= hi {
				return lo
			}
			if rapid.IntRange(0, 9).Draw(t, label+"-biased") < 6 {
				var c []int
				for _, l := range s.boundaryLengths(hi) {
					if l >= lo {
						c = append(c, l)
					}
				}
				if len(c) > 0 {
					return rapid.SampledFrom(c).Draw(t, label)
				}
			}
			return rapid.IntRange(lo, hi).Draw(t, label)
		}
		it := BinItem{Hash: s.name, Mode: mode}
		n := drawLen("written", 0, max)
		switch rapid.IntRange(0, 9).Draw(t, "content") {
		case 0:
			it.Msg = make([]byte, n)
		case 1:
			it.Msg = make([]byte, n)
			for i := range it.Msg {
				it.Msg[i] = 0xff
			}
		case 2:
			it.Msg = make([]byte, n)
			if n > 0 {
				it.Msg[rapid.IntRange(0, n-1).Draw(t, "bitpos")] = 1 << uint(rapid.IntRange(0, 7).Draw(t, "bit"))
			}
		default:
			it.Msg = rapid.SliceOfN(rapid.Byte(), n, n).Draw(t, "msg")
		}
		switch k := rapid.IntRange(0, 9).Draw(t, "chunking"); {
		case k < 3:
			it.Chunks = []int{n}
		case k == 3 && n > 0:
			it.Chunks = make([]int, n)
			for i := range it.Chunks {
				it.Chunks[i] = 1
			}
		case k == 4 && n == 0:
			it.Chunks = nil
		default:
			cuts := append(rapid.SliceOfN(rapid.IntRange(0, n), 1, 6).Draw(t, "cuts"), 0, n)
			sort.Ints(cuts)
			for i := 1; i < len(cuts); i++ {
				it.Chunks = append(it.Chunks, cuts[i]-cuts[i-1])
			}
		}
		if mode == "fixed" {
			it.Len = drawLen("length", 0, n)
			switch rapid.IntRange(0, 3).Draw(t, "min") {
			case 0:
			case 1:
				it.MinLen = it.Len
			default:
				it.MinLen = drawLen("minlen", 0, it.Len)
			}
		}
		return it
	})
}

// fixedMax0Excluded: FixedLengthSum on a sha3 hasher into which nothing was written panics in
// cmp.NewBoundedComparator (absDiffUpp = len(in) = 0). See TestBinFixedEmptyProbe; the drawn
// cases stay inside the domain where the constructor works.
func fixedMax0Excluded(it BinItem) bool {
	return it.Mode == "fixed" && len(it.Msg) == 0 && !specOf(it.Hash).md
}

const randomBatch = 8

// TestBinRandom: drawn (hash, written length, contents, chunking, Sum | FixedLengthSum with
// declared max / actual / minimal length) on a drawn curve in the test engine, in batches.
func TestBinRandom(t *testing.T) {
	rec := ev.Get(ID)
	rec.SetRule(rule)
	all := []string{"sha256", "sha256", "ripemd160", "sha3-256", "sha3-384", "sha3-512", "keccak-256", "keccak-512"}
	g := genBinItem(all, []string{"sum", "fixed", "fixed", "fixed"}).Filter(func(it BinItem) bool { return !fixedMax0Excluded(it) })
	rec.Check(t, "bin", ev.N(5, 200), func(rt *rapid.T) {
		b := BinBatch{Field: rapid.SampledFrom(curveNames).Draw(rt, "field"), Engine: "test"}
		b.Items = rapid.SliceOfN(g, randomBatch, randomBatch).Draw(rt, "items")
		// run the batch as parallel sub-batches (the outcome does not depend on the split)
		if !reportSplit(rec, rt, b, randomBatch/2) {
			return
		}
		// negative controls: tampered digest, length below the declared minimum
		it := b.Items[0]
		it.Tamper = 1 + rapid.IntRange(0, 8*specOf(it.Hash).size-1).Draw(rt, "tamper")
		reportBin(rec, rt, BinBatch{Field: b.Field, Engine: "test", Items: []BinItem{it}})
		for _, it := range b.Items {
			if it.Mode == "fixed" && it.Len < len(it.Msg) {
				it.MinLen = rapid.IntRange(it.Len+1, len(it.Msg)).Draw(rt, "min-above-len")
				reportBin(rec, rt, BinBatch{Field: b.Field, Engine: "test", Items: []BinItem{it}})
				break
			}
		}
	})
}

// reportSplit evaluates b in parts of the given size concurrently, then reports in order.
func reportSplit(rec *ev.Recorder, f ev.Failer, b BinBatch, part int) bool {
	var parts []BinBatch
	for i := 0; i < len(b.Items); i += part {
		parts = append(parts, BinBatch{Field: b.Field, Engine: b.Engine, Items: b.Items[i:min(i+part, len(b.Items))]})
	}
	type res struct {
		v, d    string
		culprit BinBatch
	}
	rs := make([]res, len(parts))
	parallel(len(parts), len(parts), func(i int) {
		v, c, d := checkBin(parts[i])
		rs[i] = res{v, d, c}
	})
	for i, pb := range parts {
		if rs[i].d != "" {
			rec.Discarded("bin:" + rs[i].d)
			continue
		}
		if rs[i].v != "" {
			rec.Report(f, "bin", rs[i].culprit, ev.Outcome{Violation: rs[i].v})
			return false
		}
		for j, it := range pb.Items {
			rec.Count("bin", single(pb, j), it.nontrivial(), it.classes(pb.Engine, pb.Field)...)
		}
	}
	return true
}

// TestBinFixedTriangle: FixedLengthSum over (declared max, actual length): every actual length
// 0..max for chosen declared maxima (the test engine needs one run per pair). quick: sha256
// max 65, boundary lengths for max 130, one sha3 variant at max rate+2. thorough: sha256 for every
// max within 6 of a boundary up to 130, one sha3 variant per shard at three maxima.
func TestBinFixedTriangle(t *testing.T) {
	rec := ev.Get(ID)
	rec.SetRule(rule)
	p := newPRNG("triangle")
	var items []BinItem
	add := func(s *binSpec, max, l int) {
		msg := makeContent(p, max)
		if p.intn(4) > 0 {
			copy(msg[l:], p.bytes(max-l)) // garbage beyond the actual length
		}
		it := BinItem{Hash: s.name, Msg: msg, Chunks: makeChunks(p, max), Mode: "fixed", Len: l}
		switch p.intn(4) {
		case 0:
			it.MinLen = l
		case 1:
			it.MinLen = p.intn(l + 1)
		}
		if len(it.Chunks) == 0 {
			it.Chunks = []int{0}
		}
		items = append(items, it)
	}
	// addMin: the same actual length with WithMinimalLength = length and length-1 (the loops of
	// FixedLengthSum start at the minimal length), and length+1 (must be unsatisfiable).
	var below []BinBatch
	addMin := func(s *binSpec, max, l int) {
		for _, m := range []int{l, l - 1, l + 1} {
			if m < 1 || m > max {
				continue
			}
			msg := p.bytes(max)
			it := BinItem{Hash: s.name, Msg: msg, Chunks: []int{max}, Mode: "fixed", Len: l, MinLen: m}
			if m > l {
				below = append(below, BinBatch{Field: "bn254", Engine: "test", Items: []BinItem{it}})
			} else {
				items = append(items, it)
			}
		}
	}
	sha := specOf("sha256")
	if ev.Tier() == "quick" {
		for _, max := range []int{0, 1, 65} {
			for l := 0; l <= max; l++ {
				add(sha, max, l)
			}
		}
		for _, l := range sha.boundaryLengths(130) {
			add(sha, 130, l)
		}
		for _, l := range []int{55, 56, 64, 119} {
			addMin(sha, 130, l)
		}
		v := specOf(sha3Variants[int(ev.Seed())%len(sha3Variants)])
		for _, l := range v.boundaryLengths(v.block + 2) {
			add(v, v.block+2, l)
		}
		for _, l := range []int{v.block - 1, v.block} {
			addMin(v, v.block+2, l)
		}
		add(v, 1, 0)
		add(v, 1, 1)
		rec.Extra("fixed-triangle", "sha256: declared max 0,1,65 x every actual length; max 130 x boundary lengths; one sha3 variant at rate+2 x boundary lengths")
	} else {
		sh := ev.Shard()
		maxes := []int{0, 1, 2, 3}
		for _, b := range []int{55, 64, 119, 128} {
			maxes = append(maxes, seq(b-2, b+2)...)
		}
		for i, max := range maxes {
			if i%8 != sh%8 {
				continue
			}
			for l := 0; l <= max; l++ {
				add(sha, max, l)
			}
		}
		v := specOf(sha3Variants[(int(ev.Seed())+sh)%len(sha3Variants)])
		max := v.block - 2 + 2*(sh%3)
		for l := 0; l <= max; l++ {
			add(v, max, l)
		}
		for _, l := range v.boundaryLengths(2*v.block + 2) {
			add(v, 2*v.block+2, l)
		}
		for _, l := range v.boundaryLengths(v.block + 2) {
			addMin(v, v.block+2, l)
		}
		for _, l := range sha.boundaryLengths(194) {
			if l%8 == sh%8 {
				addMin(sha, 194, l)
			}
		}
		rec.Extra("fixed-triangle", "sha256: declared maxima 0..3 and within 2 of 55/64/119/128 x every actual length (split over shards); sha3 variants at rate-2 / rate / rate+2 x every actual length")
	}
	items = thin(items)
	runBatches(t, rec, packBatches("bn254", "test", items, 36), workers())
	runBatches(t, rec, thin(below), workers())
}

// TestBinFixedEmptyProbe: FixedLengthSum when nothing was written (declared maximum 0) must
// give the digest of the empty message, as sha256 does (TestBinFixedTriangle). The sha3 family
// used to panic while building the circuit (finding F35, fixed): plain regression case.
func TestBinFixedEmptyProbe(t *testing.T) {
	rec := ev.Get(ID)
	for _, h := range []string{"sha3-256", "keccak-256"} {
		it := BinItem{Hash: h, Msg: []byte{}, Chunks: []int{0}, Mode: "fixed"}
		b := BinBatch{Field: "bn254", Engine: "test", Items: []BinItem{it}}
		err, stage := execBin(b)
		if err != nil {
			p := rec.Violate("bin", b, fmt.Sprintf("%s FixedLengthSum(0) with nothing written fails in the %s: %s", h, stage, firstLine(err)))
			t.Fatalf("VIOLATION %s replay=%s", ID, p)
		}
		rec.Count("bin", b, true, "fixed-max0:"+h)
	}
}

func firstLine(err error) string {
	s := err.Error()
	for i := 0; i < len(s); i++ {
		if s[i] == '\n' {
			return s[:i]
		}
	}
	return s
}

// TestBinCompiled: boundary lengths +-1 compiled with both builders and solved. Per compiled
// shape: the drawn contents, other contents, and a tampered digest. FixedLengthSum: one compiled
// circuit per declared max solved for every boundary actual length.
func TestBinCompiled(t *testing.T) {
	rec := ev.Get(ID)
	rec.SetRule(rule)
	p := newPRNG("compiled")
	var jobs [][]BinBatch // each job shares one compiled shape
	pick := func(l []int, k int) []int { // k lengths of l, rotated by the seed
		if len(l) <= k {
			return l
		}
		var r []int
		off := int(ev.Seed()) + ev.Shard()
		for i := 0; i < k; i++ {
			r = append(r, l[(off+i*len(l)/k)%len(l)])
		}
		sort.Ints(r)
		return r
	}
	sumJob := func(engine, field, hash string, lens []int) {
		shape := BinBatch{Field: field, Engine: engine}
		for _, l := range lens {
			shape.Items = append(shape.Items, BinItem{Hash: hash, Mode: "sum", Msg: p.bytes(l), Chunks: makeChunks(p, l)})
		}
		job := []BinBatch{shape}
		for a := 0; a < 2; a++ {
			b := BinBatch{Field: field, Engine: engine}
			for _, it := range shape.Items {
				it.Msg = makeContent(p, len(it.Msg))
				b.Items = append(b.Items, it)
			}
			if a == 1 {
				k := p.intn(len(b.Items))
				b.Items[k].Tamper = 1 + p.intn(8*specOf(hash).size)
			}
			job = append(job, b)
		}
		jobs = append(jobs, job)
	}
	fixedJob := func(engine, field, hash string, max, minLen int) {
		s := specOf(hash)
		var job []BinBatch
		lens := append(s.boundaryLengths(max), max)
		for k, l := range lens {
			if l < minLen || (k > 0 && l == lens[k-1]) {
				continue
			}
			it := BinItem{Hash: hash, Mode: "fixed", Msg: p.bytes(max), Chunks: []int{max}, Len: l, MinLen: minLen}
			job = append(job, BinBatch{Field: field, Engine: engine, Items: []BinItem{it}})
			if k%5 == 2 {
				it.Tamper = 1 + p.intn(8*s.size)
				job = append(job, BinBatch{Field: field, Engine: engine, Items: []BinItem{it}})
			}
		}
		if minLen > 0 {
			it := BinItem{Hash: hash, Mode: "fixed", Msg: p.bytes(max), Chunks: []int{max}, Len: minLen - 1, MinLen: minLen}
			job = append(job, BinBatch{Field: field, Engine: engine, Items: []BinItem{it}})
		}
		jobs = append(jobs, job)
	}
	engines := []string{prog.R1CS, prog.SCS}
	e := func(i int) string { return engines[(i+int(ev.Seed())+ev.Shard())%2] }
	if ev.Tier() == "quick" {
		sha, rip := specOf("sha256"), specOf("ripemd160")
		v := specOf(sha3Variants[int(ev.Seed())%len(sha3Variants)])
		w := specOf(sha3Variants[(int(ev.Seed())+1)%len(sha3Variants)])
		_ = w
		sumJob(e(0), curveNames[int(ev.Seed())%len(curveNames)], sha.name, pick(sha.boundaryLengths(66), 5))
		sumJob(e(1), "bn254", rip.name, pick(rip.boundaryLengths(66), 5))
		sumJob(e(0), "bn254", v.name, pick(v.boundaryLengths(v.block+1), 4))
		fixedJob(e(1), "bn254", "sha256", 66, 0)
		fixedJob(e(0), "bn254", w.name, w.block+2, 0)
	} else {
		i := ev.Shard()
		for k, s := range binSpecs {
			i++
			if (k+ev.Shard())%2 == 0 {
				sumJob(e(i), curveNames[i%len(curveNames)], s.name, pick(s.boundaryLengths(2*s.block+1), 6))
			} else if s.fixed {
				fixedJob(e(i), curveNames[(i+3)%len(curveNames)], s.name, s.block+2+p.intn(s.block), 0)
				fixedJob(e(i+1), "bn254", s.name, 2*s.block+2, s.block-9+p.intn(12))
			}
		}
	}
	jobs = thin(jobs)
	type res struct {
		v, d    string
		culprit BinBatch
	}
	rs := make([][]res, len(jobs))
	parallel(len(jobs), 5, func(i int) {
		for _, b := range jobs[i] {
			v, c, d := checkBin(b)
			rs[i] = append(rs[i], res{v, d, c})
		}
		binCacheDrop(binKey(jobs[i][0]))
	})
	nb := 0
	for i, job := range jobs {
		for k, b := range job {
			r := rs[i][k]
			nb++
			if r.d != "" {
				rec.Discarded("bin:" + r.d)
				continue
			}
			if r.v != "" {
				pth := rec.Violate("bin", r.culprit, r.v)
				t.Fatalf("VIOLATION %s kind=bin replay=%s: %s", ID, pth, r.v)
			}
			for j, it := range b.Items {
				rec.Count("bin", single(b, j), it.nontrivial(), it.classes(b.Engine, b.Field)...)
			}
		}
	}
	rec.AddExtra("compiled-solves", nb)
	rec.AddExtra("compiled-shapes", len(jobs))
}

package c15

import (
	"bytes"
	"fmt"
	"math/big"
	"testing"

	"verifharness/lib/ev"
	"verifharness/lib/prog"

	"github.com/consensys/gnark-crypto/accumulator/merkletree"
	frbls12377 "github.com/consensys/gnark-crypto/ecc/bls12-377/fr"
	pbls12377 "github.com/consensys/gnark-crypto/ecc/bls12-377/fr/poseidon2"
	frbls12381 "github.com/consensys/gnark-crypto/ecc/bls12-381/fr"
	pbls12381 "github.com/consensys/gnark-crypto/ecc/bls12-381/fr/poseidon2"
	frbls24315 "github.com/consensys/gnark-crypto/ecc/bls24-315/fr"
	pbls24315 "github.com/consensys/gnark-crypto/ecc/bls24-315/fr/poseidon2"
	frbls24317 "github.com/consensys/gnark-crypto/ecc/bls24-317/fr"
	pbls24317 "github.com/consensys/gnark-crypto/ecc/bls24-317/fr/poseidon2"
	frbn254 "github.com/consensys/gnark-crypto/ecc/bn254/fr"
	pbn254 "github.com/consensys/gnark-crypto/ecc/bn254/fr/poseidon2"
	frbw6633 "github.com/consensys/gnark-crypto/ecc/bw6-633/fr"
	pbw6633 "github.com/consensys/gnark-crypto/ecc/bw6-633/fr/poseidon2"
	frbw6761 "github.com/consensys/gnark-crypto/ecc/bw6-761/fr"
	pbw6761 "github.com/consensys/gnark-crypto/ecc/bw6-761/fr/poseidon2"
	gcfs "github.com/consensys/gnark-crypto/fiat-shamir"
	gchash "github.com/consensys/gnark-crypto/hash"
	"github.com/consensys/gnark/frontend"
	"github.com/consensys/gnark/std/accumulator/merkle"
	fiatshamir "github.com/consensys/gnark/std/fiat-shamir"
	zkhash "github.com/consensys/gnark/std/hash"
	"github.com/consensys/gnark/std/hash/mimc"
	zkposeidon2 "github.com/consensys/gnark/std/hash/poseidon2"
	permposeidon2 "github.com/consensys/gnark/std/permutation/poseidon2"
	"github.com/consensys/gnark/test"
	"pgregory.net/rapid"
)

// ---- native side -------------------------------------------------------------------------

var nativeMimc = map[string]gchash.Hash{
	"bn254": gchash.MIMC_BN254, "bls12-377": gchash.MIMC_BLS12_377, "bls12-381": gchash.MIMC_BLS12_381,
	"bls24-315": gchash.MIMC_BLS24_315, "bls24-317": gchash.MIMC_BLS24_317, "bw6-633": gchash.MIMC_BW6_633, "bw6-761": gchash.MIMC_BW6_761,
}

// fieldHashOffered: the (hash, curve) pairs for which gnark offers the gadget.
func fieldHashOffered(hash, field string) bool {
	switch hash {
	case "mimc":
		_, ok := nativeMimc[field]
		return ok
	case "poseidon2":
		return field == "bls12-377" // std/permutation/poseidon2.NewPoseidon2: default parameters only for BLS12-377
	}
	return false
}

func newNative(hash, field string) gchash.StateStorer {
	if hash == "mimc" {
		return nativeMimc[field].New().(gchash.StateStorer)
	}
	return gchash.POSEIDON2_BLS12_377.New().(gchash.StateStorer)
}

// newZK builds the gadget; mimc is returned as *mimc.MiMC (a hash.StateStorer).
func newZK(api frontend.API, hash string) (zkhash.FieldHasher, error) {
	if hash == "mimc" {
		h, err := mimc.NewMiMC(api)
		if err != nil {
			return nil, err
		}
		return &h, nil
	}
	return zkposeidon2.NewMerkleDamgardHasher(api)
}

// execCircuit runs circuit/assignment under the engine. stage tells where an error arose.
func execCircuit(engine string, f prog.Field, circuit, assignment frontend.Circuit) (err error, stage string) {
	switch engine {
	case "test":
		return test.IsSolved(circuit, assignment, f.Q), "test engine"
	case prog.R1CS, prog.SCS:
		sys, err := prog.Compile(f, engine, circuit)
		if err != nil {
			return err, "compile"
		}
		w, err := prog.Witness(f, assignment)
		if err != nil {
			return err, "witness"
		}
		_, err = prog.Solve(sys, w)
		return err, "solve"
	}
	return fmt.Errorf("unknown engine %q", engine), "harness"
}

// verdict turns (expectation, engine result) into an outcome.
func verdict(where string, expectSat bool, why string, err error, stage string) (viol, discard string) {
	if stage == "witness" || stage == "harness" {
		return "", "harness: " + short(err)
	}
	if stage == "compile" && err != nil {
		return fmt.Sprintf("%s Compile failed: %s", where, short(err)), ""
	}
	if expectSat {
		if err != nil {
			return fmt.Sprintf("%s %s rejects the native result (%s): %s", where, stage, why, short(err)), ""
		}
		return "", ""
	}
	if err == nil {
		return fmt.Sprintf("%s circuit satisfied although %s", where, why), ""
	}
	if goPanic(err) {
		return fmt.Sprintf("%s Go runtime panic instead of an unsatisfied constraint (%s): %s", where, why, short(err)), ""
	}
	return "", ""
}

// ---- field hash scripts (MiMC, Poseidon2 Merkle-Damgard) ---------------------------------

type FieldOp struct {
	Op string `json:"op"` // "write" (N values, possibly 0) | "sum" | "reset" | "state" (State -> fresh hasher -> SetState) | "state-self" (State, Reset, SetState on the same hasher)
	N  int    `json:"n,omitempty"`
}

type FieldCase struct {
	Field  string    `json:"field"`
	Hash   string    `json:"hash"` // "mimc" | "poseidon2"
	Engine string    `json:"engine"`
	Vals   []string  `json:"vals"` // decimal, consumed by the writes
	Ops    []FieldOp `json:"ops"`
	Tamper int       `json:"tamper,omitempty"` // k>0: 1 is added to the k-th expected sum => must be unsatisfiable
}

type fieldCircuit struct {
	In  []frontend.Variable
	Exp []frontend.Variable `gnark:",public"`

	hash string
	ops  []FieldOp
}

func (c *fieldCircuit) Define(api frontend.API) error {
	h, err := newZK(api, c.hash)
	if err != nil {
		return err
	}
	in, out := 0, 0
	for _, op := range c.ops {
		switch op.Op {
		case "write":
			h.Write(c.In[in : in+op.N]...)
			in += op.N
		case "sum":
			api.AssertIsEqual(h.Sum(), c.Exp[out])
			out++
		case "reset":
			h.Reset()
		case "state", "state-self":
			ss, ok := h.(zkhash.StateStorer)
			if !ok {
				return fmt.Errorf("hasher %s is not a StateStorer", c.hash)
			}
			st := ss.State()
			if op.Op == "state" {
				h2, err := newZK(api, c.hash)
				if err != nil {
					return err
				}
				h = h2
			} else {
				h.Reset()
			}
			if err := h.(zkhash.StateStorer).SetState(st); err != nil {
				return fmt.Errorf("SetState: %w", err)
			}
		}
	}
	return nil
}

func (c FieldCase) valid() string {
	if _, ok := fieldOf(c.Field); !ok {
		return "unknown field"
	}
	if !fieldHashOffered(c.Hash, c.Field) {
		return "hash not offered on this curve"
	}
	n, sums := 0, 0
	for _, op := range c.Ops {
		switch op.Op {
		case "write":
			if op.N < 0 {
				return "negative write"
			}
			n += op.N
		case "sum":
			sums++
		case "reset":
		case "state", "state-self":
			if c.Hash != "mimc" {
				return "State/SetState only offered by MiMC"
			}
		default:
			return "unknown op"
		}
	}
	if n != len(c.Vals) || sums == 0 || c.Tamper < 0 || c.Tamper > sums {
		return "malformed script"
	}
	return ""
}

// nativeScript mirrors the script on gnark-crypto's hasher and returns the sums.
func nativeScript(c FieldCase, q *big.Int) ([]*big.Int, error) {
	h := newNative(c.Hash, c.Field)
	nb := h.BlockSize()
	var sums []*big.Int
	in := 0
	for _, op := range c.Ops {
		switch op.Op {
		case "write":
			for _, v := range c.Vals[in : in+op.N] {
				if _, err := h.Write(fill(new(big.Int).Mod(parseDec(v), q), nb)); err != nil {
					return nil, err
				}
			}
			in += op.N
		case "sum":
			sums = append(sums, new(big.Int).SetBytes(h.Sum(nil)))
		case "reset":
			h.Reset()
		case "state", "state-self":
			st := append([]byte(nil), h.State()...)
			if op.Op == "state" {
				h = newNative(c.Hash, c.Field)
			} else {
				h.Reset()
			}
			if err := h.SetState(st); err != nil {
				return nil, err
			}
		}
	}
	return sums, nil
}

func runField(c FieldCase) ev.Outcome {
	if why := c.valid(); why != "" {
		return ev.Outcome{Discard: true, DiscardWhy: why}
	}
	f, _ := fieldOf(c.Field)
	sums, err := nativeScript(c, f.Q)
	if err != nil {
		return ev.Outcome{Discard: true, DiscardWhy: "native hasher error: " + err.Error()}
	}
	circuit := &fieldCircuit{In: make([]frontend.Variable, len(c.Vals)), Exp: make([]frontend.Variable, len(sums)), hash: c.Hash, ops: c.Ops}
	asg := &fieldCircuit{In: make([]frontend.Variable, len(c.Vals)), Exp: make([]frontend.Variable, len(sums))}
	for i, v := range c.Vals {
		asg.In[i] = new(big.Int).Mod(parseDec(v), f.Q)
	}
	for i, s := range sums {
		asg.Exp[i] = s
	}
	why := fmt.Sprintf("%s script %v, native sums %v", c.Hash, c.Ops, sums)
	if c.Tamper > 0 {
		x := new(big.Int).Add(sums[c.Tamper-1], big.NewInt(1))
		asg.Exp[c.Tamper-1] = x.Mod(x, f.Q)
		why = fmt.Sprintf("expected sum #%d was replaced by native+1 (%s)", c.Tamper, why)
	}
	e, stage := execCircuit(c.Engine, f, circuit, asg)
	v, d := verdict(fmt.Sprintf("[%s field=%s engine=%s]", c.Hash, c.Field, c.Engine), c.Tamper == 0, why, e, stage)
	if d != "" {
		return ev.Outcome{Discard: true, DiscardWhy: d}
	}
	if v != "" {
		return ev.Outcome{Violation: v}
	}
	special := false
	cl := []string{"field-hash:" + c.Hash + ":" + c.Field, "engine:" + c.Engine, fmt.Sprintf("field-hash:elements:%d", min(len(c.Vals), 12)/4*4)}
	for _, op := range c.Ops {
		if op.Op != "write" && op.Op != "sum" {
			special = true
			cl = append(cl, "field-hash:op:"+op.Op)
		}
		if op.Op == "write" && op.N == 0 {
			cl = append(cl, "field-hash:empty-write")
		}
	}
	if len(sums) > 1 {
		cl = append(cl, "field-hash:intermediate-sum")
	}
	if len(c.Vals) == 0 {
		cl = append(cl, "field-hash:no-input")
	}
	if c.Tamper > 0 {
		cl = append(cl, "neg:tampered-digest")
	}
	return ev.Outcome{NonTrivial: len(c.Vals) >= 2 || special, Classes: dedup(cl)}
}

func dedup(s []string) []string {
	seen := map[string]bool{}
	var r []string
	for _, x := range s {
		if !seen[x] {
			seen[x] = true
			r = append(r, x)
		}
	}
	return r
}

// genElem draws a field element with boundary values.
func genElem(q *big.Int) *rapid.Generator[string] {
	return rapid.Custom(func(t *rapid.T) string {
		switch rapid.IntRange(0, 9).Draw(t, "elem-kind") {
		case 0:
			return "0"
		case 1:
			return "1"
		case 2:
			return dec(new(big.Int).Sub(q, big.NewInt(1)))
		case 3:
			return dec(big.NewInt(int64(rapid.IntRange(2, 1<<16).Draw(t, "small"))))
		}
		b := rapid.SliceOfN(rapid.Byte(), 64, 64).Draw(t, "bytes")
		x := new(big.Int).SetBytes(b)
		return dec(x.Mod(x, q))
	})
}

func genEngine(compiledPct int) *rapid.Generator[string] {
	return rapid.Custom(func(t *rapid.T) string {
		if rapid.IntRange(0, 99).Draw(t, "engine-pick") < compiledPct {
			return rapid.SampledFrom([]string{prog.R1CS, prog.SCS}).Draw(t, "builder")
		}
		return "test"
	})
}

func genFieldCase(compiledPct int) *rapid.Generator[FieldCase] {
	return rapid.Custom(func(t *rapid.T) FieldCase {
		c := FieldCase{Hash: "mimc", Field: rapid.SampledFrom(curveNames).Draw(t, "field")}
		if rapid.IntRange(0, 7).Draw(t, "poseidon2") == 0 {
			c.Hash, c.Field = "poseidon2", "bls12-377"
		}
		c.Engine = genEngine(compiledPct).Draw(t, "engine")
		f, _ := fieldOf(c.Field)
		total := rapid.IntRange(0, 12).Draw(t, "elements")
		left := total
		nops := rapid.IntRange(0, 6).Draw(t, "nops")
		for i := 0; i < nops; i++ {
			k := rapid.IntRange(0, 9).Draw(t, "op")
			switch {
			case k < 5:
				n := rapid.IntRange(0, left).Draw(t, "n")
				c.Ops = append(c.Ops, FieldOp{Op: "write", N: n})
				left -= n
			case k < 7:
				c.Ops = append(c.Ops, FieldOp{Op: "sum"})
			case k == 7:
				c.Ops = append(c.Ops, FieldOp{Op: "reset"})
			default:
				if c.Hash == "mimc" {
					c.Ops = append(c.Ops, FieldOp{Op: rapid.SampledFrom([]string{"state", "state-self"}).Draw(t, "stateop")})
				}
			}
		}
		c.Ops = append(c.Ops, FieldOp{Op: "write", N: left}, FieldOp{Op: "sum"})
		c.Vals = rapid.SliceOfN(genElem(f.Q), total, total).Draw(t, "vals")
		return c
	})
}

func TestFieldHash(t *testing.T) {
	rec := ev.Get(ID)
	rec.SetRule(rule)
	g := genFieldCase(12)
	rec.Check(t, "field", ev.N(1000, 60000), func(rt *rapid.T) {
		c := g.Draw(rt, "case")
		rec.Begin("field", c)
		rec.Report(rt, "field", c, runField(c))
		// negative control
		sums := 0
		for _, op := range c.Ops {
			if op.Op == "sum" {
				sums++
			}
		}
		c.Tamper = rapid.IntRange(1, sums).Draw(rt, "tamper")
		rec.Begin("field", c)
		rec.Report(rt, "field", c, runField(c))
	})
}

// TestFieldHashSweep: MiMC on every curve for 0..12 elements, test engine and both builders.
func TestFieldHashSweep(t *testing.T) {
	rec := ev.Get(ID)
	rec.SetRule(rule)
	p := newPRNG("mimc-sweep")
	for _, fn := range curveNames {
		f, _ := fieldOf(fn)
		for n := 0; n <= 12; n++ {
			for _, hash := range []string{"mimc", "poseidon2"} {
				if !fieldHashOffered(hash, fn) {
					continue
				}
				c := FieldCase{Field: fn, Hash: hash, Ops: []FieldOp{{Op: "write", N: n}, {Op: "sum"}}}
				for i := 0; i < n; i++ {
					x := new(big.Int).SetBytes(p.bytes(64))
					c.Vals = append(c.Vals, dec(x.Mod(x, f.Q)))
				}
				engines := []string{"test"}
				if n%4 == (int(ev.Seed())+ev.Shard())%4 || ev.Tier() == "thorough" {
					engines = append(engines, prog.R1CS, prog.SCS)
				}
				for _, e := range engines {
					c.Engine = e
					if o := runField(c); o.Violation != "" {
						pth := rec.Violate("field", c, o.Violation)
						t.Fatalf("VIOLATION %s kind=field replay=%s: %s", ID, pth, o.Violation)
					} else if o.Discard {
						rec.Discarded("field:" + o.DiscardWhy)
					} else {
						rec.Count("field", c, o.NonTrivial, o.Classes...)
					}
				}
			}
		}
	}
	rec.Extra("exhaustive-mimc-element-counts", "0..12 on 7 curves")
}

// ---- Poseidon2 permutation on every curve ------------------------------------------------

type PermCase struct {
	Field  string   `json:"field"`
	Engine string   `json:"engine"`
	Op     string   `json:"op"` // "perm" | "compress"
	Width  int      `json:"width"`
	RF     int      `json:"rf"`
	RP     int      `json:"rp"`
	In     []string `json:"in"`
	Tamper int      `json:"tamper,omitempty"` // k>0: output k-1 replaced by native+1
}

type elemPtr[E any] interface {
	*E
	SetBigInt(*big.Int) *E
	BigInt(*big.Int) *big.Int
}

func nativePerm[E any, PE elemPtr[E]](perm func([]E) error, in []*big.Int) ([]*big.Int, error) {
	x := make([]E, len(in))
	for i := range in {
		PE(&x[i]).SetBigInt(in[i])
	}
	if err := perm(x); err != nil {
		return nil, err
	}
	out := make([]*big.Int, len(in))
	for i := range x {
		out[i] = PE(&x[i]).BigInt(new(big.Int))
	}
	return out, nil
}

type nativeP2 struct {
	perm     func(in []*big.Int) ([]*big.Int, error)
	compress func(l, r []byte) ([]byte, error)
	bytes    int
}

func nativePoseidon2(field string, t, rf, rp int) *nativeP2 {
	switch field {
	case "bn254":
		p := pbn254.NewPermutation(t, rf, rp)
		return &nativeP2{func(in []*big.Int) ([]*big.Int, error) { return nativePerm[frbn254.Element](p.Permutation, in) }, p.Compress, frbn254.Bytes}
	case "bls12-377":
		p := pbls12377.NewPermutation(t, rf, rp)
		return &nativeP2{func(in []*big.Int) ([]*big.Int, error) { return nativePerm[frbls12377.Element](p.Permutation, in) }, p.Compress, frbls12377.Bytes}
	case "bls12-381":
		p := pbls12381.NewPermutation(t, rf, rp)
		return &nativeP2{func(in []*big.Int) ([]*big.Int, error) { return nativePerm[frbls12381.Element](p.Permutation, in) }, p.Compress, frbls12381.Bytes}
	case "bls24-315":
		p := pbls24315.NewPermutation(t, rf, rp)
		return &nativeP2{func(in []*big.Int) ([]*big.Int, error) { return nativePerm[frbls24315.Element](p.Permutation, in) }, p.Compress, frbls24315.Bytes}
	case "bls24-317":
		p := pbls24317.NewPermutation(t, rf, rp)
		return &nativeP2{func(in []*big.Int) ([]*big.Int, error) { return nativePerm[frbls24317.Element](p.Permutation, in) }, p.Compress, frbls24317.Bytes}
	case "bw6-633":
		p := pbw6633.NewPermutation(t, rf, rp)
		return &nativeP2{func(in []*big.Int) ([]*big.Int, error) { return nativePerm[frbw6633.Element](p.Permutation, in) }, p.Compress, frbw6633.Bytes}
	case "bw6-761":
		p := pbw6761.NewPermutation(t, rf, rp)
		return &nativeP2{func(in []*big.Int) ([]*big.Int, error) { return nativePerm[frbw6761.Element](p.Permutation, in) }, p.Compress, frbw6761.Bytes}
	}
	return nil
}

type permCircuit struct {
	In  []frontend.Variable
	Exp []frontend.Variable `gnark:",public"`

	c PermCase
}

func (c *permCircuit) Define(api frontend.API) error {
	p, err := permposeidon2.NewPoseidon2FromParameters(api, c.c.Width, c.c.RF, c.c.RP)
	if err != nil {
		return err
	}
	if c.c.Op == "compress" {
		api.AssertIsEqual(p.Compress(c.In[0], c.In[1]), c.Exp[0])
		return nil
	}
	st := make([]frontend.Variable, len(c.In))
	copy(st, c.In)
	if err := p.Permutation(st); err != nil {
		return err
	}
	for i := range st {
		api.AssertIsEqual(st[i], c.Exp[i])
	}
	return nil
}

func runPerm(c PermCase) ev.Outcome {
	f, ok := fieldOf(c.Field)
	if !ok || (c.Width != 2 && c.Width != 3) || len(c.In) != c.Width || c.RF < 2 || c.RF%2 != 0 || c.RF > 16 || c.RP < 0 || c.RP > 80 ||
		(c.Op != "perm" && c.Op != "compress") || (c.Op == "compress" && c.Width != 2) {
		return ev.Outcome{Discard: true, DiscardWhy: "malformed perm case"}
	}
	n := nativePoseidon2(c.Field, c.Width, c.RF, c.RP)
	in := make([]*big.Int, len(c.In))
	for i, v := range c.In {
		in[i] = new(big.Int).Mod(parseDec(v), f.Q)
	}
	var exp []*big.Int
	if c.Op == "compress" {
		o, err := n.compress(fill(in[0], n.bytes), fill(in[1], n.bytes))
		if err != nil {
			return ev.Outcome{Discard: true, DiscardWhy: "native compress error: " + err.Error()}
		}
		exp = []*big.Int{new(big.Int).SetBytes(o)}
	} else {
		o, err := n.perm(in)
		if err != nil {
			return ev.Outcome{Discard: true, DiscardWhy: "native permutation error: " + err.Error()}
		}
		exp = o
	}
	if c.Tamper < 0 || c.Tamper > len(exp) {
		return ev.Outcome{Discard: true, DiscardWhy: "malformed perm case"}
	}
	shape := PermCase{Op: c.Op, Width: c.Width, RF: c.RF, RP: c.RP}
	circuit := &permCircuit{In: make([]frontend.Variable, len(in)), Exp: make([]frontend.Variable, len(exp)), c: shape}
	asg := &permCircuit{In: make([]frontend.Variable, len(in)), Exp: make([]frontend.Variable, len(exp))}
	for i := range in {
		asg.In[i] = in[i]
	}
	for i := range exp {
		asg.Exp[i] = exp[i]
	}
	why := fmt.Sprintf("poseidon2 %s t=%d rf=%d rp=%d in=%v native=%v", c.Op, c.Width, c.RF, c.RP, in, exp)
	if c.Tamper > 0 {
		x := new(big.Int).Add(exp[c.Tamper-1], big.NewInt(1))
		asg.Exp[c.Tamper-1] = x.Mod(x, f.Q)
		why = fmt.Sprintf("expected output #%d was replaced by native+1 (%s)", c.Tamper, why)
	}
	e, stage := execCircuit(c.Engine, f, circuit, asg)
	v, d := verdict(fmt.Sprintf("[poseidon2-perm field=%s engine=%s]", c.Field, c.Engine), c.Tamper == 0, why, e, stage)
	if d != "" {
		return ev.Outcome{Discard: true, DiscardWhy: d}
	}
	if v != "" {
		return ev.Outcome{Violation: v}
	}
	cl := []string{"perm:" + c.Field, fmt.Sprintf("perm:%s:t=%d", c.Op, c.Width), "engine:" + c.Engine}
	if c.RP == 0 {
		cl = append(cl, "perm:rp=0")
	}
	if c.Tamper > 0 {
		cl = append(cl, "neg:tampered-digest")
	}
	return ev.Outcome{NonTrivial: true, Classes: cl}
}

func TestPoseidon2Permutation(t *testing.T) {
	rec := ev.Get(ID)
	rec.SetRule(rule)
	rec.Check(t, "perm", ev.N(400, 20000), func(rt *rapid.T) {
		c := PermCase{Field: rapid.SampledFrom(curveNames).Draw(rt, "field"), Engine: genEngine(15).Draw(rt, "engine")}
		f, _ := fieldOf(c.Field)
		c.Width = rapid.SampledFrom([]int{2, 3}).Draw(rt, "width")
		c.Op = "perm"
		if c.Width == 2 && rapid.Bool().Draw(rt, "compress") {
			c.Op = "compress"
		}
		if rapid.IntRange(0, 3).Draw(rt, "default-params") == 0 {
			c.RF, c.RP = 6, 26
		} else {
			c.RF = 2 * rapid.IntRange(1, 4).Draw(rt, "rf/2")
			c.RP = rapid.IntRange(0, 40).Draw(rt, "rp")
		}
		c.In = rapid.SliceOfN(genElem(f.Q), c.Width, c.Width).Draw(rt, "in")
		rec.Begin("perm", c)
		rec.Report(rt, "perm", c, runPerm(c))
		n := c.Width
		if c.Op == "compress" {
			n = 1
		}
		c.Tamper = rapid.IntRange(1, n).Draw(rt, "tamper")
		rec.Begin("perm", c)
		rec.Report(rt, "perm", c, runPerm(c))
	})
}

// ---- Merkle proofs ---------------------------------------------------------------------------

type MerkleCase struct {
	Field  string `json:"field"`
	Hash   string `json:"hash"`
	Engine string `json:"engine"`
	Depth  int    `json:"depth"`
	Seed   uint64 `json:"seed"`  // the 2^depth leaves are expand(seed, i) mod q
	Index  uint64 `json:"index"` // proven leaf
	Mut    string `json:"mut"`   // "" | "leaf" | "sibling" | "index" | "index+2^depth" | "root"
	MutPos uint64 `json:"mut_pos,omitempty"`
}

type merkleCircuit struct {
	M    merkle.MerkleProof
	Leaf frontend.Variable

	hash string
}

func (c *merkleCircuit) Define(api frontend.API) error {
	h, err := newZK(api, c.hash)
	if err != nil {
		return err
	}
	c.M.VerifyProof(api, h, c.Leaf)
	return nil
}

func runMerkle(c MerkleCase) ev.Outcome {
	f, ok := fieldOf(c.Field)
	if !ok || !fieldHashOffered(c.Hash, c.Field) || c.Depth < 1 || c.Depth > 10 || c.Index >= 1<<uint(c.Depth) {
		return ev.Outcome{Discard: true, DiscardWhy: "malformed merkle case"}
	}
	hn := newNative(c.Hash, c.Field)
	nb := hn.BlockSize()
	numLeaves := uint64(1) << uint(c.Depth)
	var buf bytes.Buffer
	for i := uint64(0); i < numLeaves; i++ {
		x := new(big.Int).SetBytes(expand(c.Seed, fmt.Sprintf("leaf%d", i), 64))
		buf.Write(fill(x.Mod(x, f.Q), nb))
	}
	root, path, nl, err := merkletree.BuildReaderProof(&buf, hn, nb, c.Index)
	if err != nil || nl != numLeaves || len(path) != c.Depth+1 {
		return ev.Outcome{Discard: true, DiscardWhy: fmt.Sprintf("native BuildReaderProof: err=%v leaves=%d path=%d", err, nl, len(path))}
	}
	index := c.Index
	bump := func(b []byte) []byte {
		x := new(big.Int).SetBytes(b)
		x.Add(x, big.NewInt(1)).Mod(x, f.Q)
		return fill(x, nb)
	}
	claimed := new(big.Int).SetUint64(index)
	switch c.Mut {
	case "":
	case "leaf":
		path[0] = bump(path[0])
	case "sibling":
		k := 1 + int(c.MutPos%uint64(c.Depth))
		path[k] = bump(path[k])
	case "root":
		root = bump(root)
	case "index":
		index = c.MutPos % numLeaves
		claimed.SetUint64(index)
	case "index+2^depth":
		// same low bits, outside the tree: natively out of range; in-circuit ToBinary(leaf, depth) must reject
		claimed.Add(claimed, new(big.Int).SetUint64(numLeaves))
		index += numLeaves
	default:
		return ev.Outcome{Discard: true, DiscardWhy: "unknown mutation"}
	}
	accept := merkletree.VerifyProof(hn, root, path, index, numLeaves)
	if c.Mut == "" && !accept {
		return ev.Outcome{Discard: true, DiscardWhy: "harness: native rejects its own proof"}
	}
	circuit := &merkleCircuit{hash: c.Hash}
	circuit.M.Path = make([]frontend.Variable, c.Depth+1)
	asg := &merkleCircuit{Leaf: claimed}
	asg.M.RootHash = root
	asg.M.Path = make([]frontend.Variable, c.Depth+1)
	for i := range path {
		asg.M.Path[i] = path[i]
	}
	why := fmt.Sprintf("merkle depth=%d index=%d mutation=%q claimed-index=%s: native VerifyProof=%v", c.Depth, c.Index, c.Mut, claimed, accept)
	e, stage := execCircuit(c.Engine, f, circuit, asg)
	v, d := verdict(fmt.Sprintf("[merkle %s field=%s engine=%s]", c.Hash, c.Field, c.Engine), accept, why, e, stage)
	if d != "" {
		return ev.Outcome{Discard: true, DiscardWhy: d}
	}
	if v != "" {
		return ev.Outcome{Violation: v}
	}
	m := c.Mut
	if m == "" {
		m = "valid"
	}
	cl := []string{"merkle:" + c.Hash + ":" + c.Field, "merkle:" + m, fmt.Sprintf("merkle:depth:%d", c.Depth), "engine:" + c.Engine, fmt.Sprintf("merkle:native-accepts:%v", accept)}
	if c.Index == 0 {
		cl = append(cl, "merkle:index=0")
	}
	if c.Index == numLeaves-1 {
		cl = append(cl, "merkle:index=last")
	}
	return ev.Outcome{NonTrivial: c.Depth >= 2 || c.Mut != "", Classes: cl}
}

func TestMerkle(t *testing.T) {
	rec := ev.Get(ID)
	rec.SetRule(rule)
	rec.Check(t, "merkle", ev.N(300, 16000), func(rt *rapid.T) {
		c := MerkleCase{Hash: "mimc", Field: rapid.SampledFrom(curveNames).Draw(rt, "field")}
		if rapid.IntRange(0, 5).Draw(rt, "poseidon2") == 0 {
			c.Hash, c.Field = "poseidon2", "bls12-377"
		}
		c.Engine = genEngine(12).Draw(rt, "engine")
		c.Depth = rapid.IntRange(1, 8).Draw(rt, "depth")
		c.Seed = rapid.Uint64().Draw(rt, "seed")
		n := uint64(1) << uint(c.Depth)
		switch rapid.IntRange(0, 3).Draw(rt, "index-kind") {
		case 0:
			c.Index = 0
		case 1:
			c.Index = n - 1
		default:
			c.Index = rapid.Uint64Range(0, n-1).Draw(rt, "index")
		}
		c.Mut = rapid.SampledFrom([]string{"", "", "leaf", "sibling", "index", "index+2^depth", "root"}).Draw(rt, "mut")
		if c.Mut == "sibling" || c.Mut == "index" {
			c.MutPos = rapid.Uint64Range(0, n-1).Draw(rt, "mutpos")
		}
		rec.Begin("merkle", c)
		rec.Report(rt, "merkle", c, runMerkle(c))
	})
}

// ---- Fiat-Shamir transcript --------------------------------------------------------------

type FSCase struct {
	Field     string     `json:"field"`
	Hash      string     `json:"hash"`
	Engine    string     `json:"engine"`
	Names     []string   `json:"names"`
	Bindings  [][]string `json:"bindings"`  // per challenge, decimal
	OneByOne  bool       `json:"one_by_one"` // in-circuit: one Bind call per value instead of one per challenge
	Recompute bool       `json:"recompute"`  // ask for every challenge a second time at the end: same value
	Tamper    int        `json:"tamper,omitempty"`
}

type fsCircuit struct {
	B   [][]frontend.Variable `gnark:",public"`
	Exp []frontend.Variable

	c FSCase
}

func (c *fsCircuit) Define(api frontend.API) error {
	h, err := newZK(api, c.c.Hash)
	if err != nil {
		return err
	}
	ts := fiatshamir.NewTranscript(api, h, c.c.Names)
	for i, name := range c.c.Names {
		if c.c.OneByOne {
			for _, v := range c.B[i] {
				if err := ts.Bind(name, []frontend.Variable{v}); err != nil {
					return err
				}
			}
		} else if err := ts.Bind(name, c.B[i]); err != nil {
			return err
		}
	}
	vals := make([]frontend.Variable, len(c.c.Names))
	for i, name := range c.c.Names {
		if vals[i], err = ts.ComputeChallenge(name); err != nil {
			return err
		}
		api.AssertIsEqual(vals[i], c.Exp[i])
	}
	if c.c.Recompute {
		for i, name := range c.c.Names {
			v, err := ts.ComputeChallenge(name)
			if err != nil {
				return err
			}
			api.AssertIsEqual(v, c.Exp[i])
		}
	}
	return nil
}

func runFS(c FSCase) ev.Outcome {
	f, ok := fieldOf(c.Field)
	if !ok || !fieldHashOffered(c.Hash, c.Field) || len(c.Names) == 0 || len(c.Names) != len(c.Bindings) || c.Tamper < 0 || c.Tamper > len(c.Names) {
		return ev.Outcome{Discard: true, DiscardWhy: "malformed fs case"}
	}
	seen := map[string]bool{}
	for _, n := range c.Names {
		if n == "" || len(n) > 8 || seen[n] {
			return ev.Outcome{Discard: true, DiscardWhy: "challenge names must be distinct, non-empty and short"}
		}
		seen[n] = true
	}
	hn := newNative(c.Hash, c.Field)
	nb := hn.BlockSize()
	ts := gcfs.NewTranscript(hn, c.Names...)
	nbind := 0
	for i, name := range c.Names {
		for _, v := range c.Bindings[i] {
			nbind++
			if err := ts.Bind(name, fill(new(big.Int).Mod(parseDec(v), f.Q), nb)); err != nil {
				return ev.Outcome{Discard: true, DiscardWhy: "native Bind: " + err.Error()}
			}
		}
	}
	exp := make([]*big.Int, len(c.Names))
	for i, name := range c.Names {
		b, err := ts.ComputeChallenge(name)
		if err != nil {
			return ev.Outcome{Discard: true, DiscardWhy: "native ComputeChallenge: " + err.Error()}
		}
		exp[i] = new(big.Int).SetBytes(b)
	}
	shape := FSCase{Hash: c.Hash, Names: c.Names, OneByOne: c.OneByOne, Recompute: c.Recompute}
	circuit := &fsCircuit{c: shape, Exp: make([]frontend.Variable, len(exp))}
	asg := &fsCircuit{Exp: make([]frontend.Variable, len(exp))}
	for i := range c.Names {
		circuit.B = append(circuit.B, make([]frontend.Variable, len(c.Bindings[i])))
		row := make([]frontend.Variable, len(c.Bindings[i]))
		for j, v := range c.Bindings[i] {
			row[j] = new(big.Int).Mod(parseDec(v), f.Q)
		}
		asg.B = append(asg.B, row)
		asg.Exp[i] = exp[i]
	}
	why := fmt.Sprintf("transcript names=%q bindings=%v native challenges=%v", c.Names, c.Bindings, exp)
	if c.Tamper > 0 {
		x := new(big.Int).Add(exp[c.Tamper-1], big.NewInt(1))
		asg.Exp[c.Tamper-1] = x.Mod(x, f.Q)
		why = fmt.Sprintf("expected challenge #%d was replaced by native+1 (%s)", c.Tamper, why)
	}
	e, stage := execCircuit(c.Engine, f, circuit, asg)
	v, d := verdict(fmt.Sprintf("[fiat-shamir %s field=%s engine=%s]", c.Hash, c.Field, c.Engine), c.Tamper == 0, why, e, stage)
	if d != "" {
		return ev.Outcome{Discard: true, DiscardWhy: d}
	}
	if v != "" {
		return ev.Outcome{Violation: v}
	}
	cl := []string{"fs:" + c.Hash + ":" + c.Field, fmt.Sprintf("fs:challenges:%d", len(c.Names)), "engine:" + c.Engine}
	if nbind == 0 {
		cl = append(cl, "fs:no-bindings")
	}
	for _, b := range c.Bindings {
		if len(b) == 0 {
			cl = append(cl, "fs:challenge-without-binding")
			break
		}
	}
	if c.Recompute {
		cl = append(cl, "fs:recompute")
	}
	if c.Tamper > 0 {
		cl = append(cl, "neg:tampered-digest")
	}
	return ev.Outcome{NonTrivial: len(c.Names) >= 2 || nbind >= 1, Classes: cl}
}

func TestFiatShamir(t *testing.T) {
	rec := ev.Get(ID)
	rec.SetRule(rule)
	rec.Check(t, "fs", ev.N(400, 20000), func(rt *rapid.T) {
		c := FSCase{Hash: "mimc", Field: rapid.SampledFrom(curveNames).Draw(rt, "field")}
		if rapid.IntRange(0, 5).Draw(rt, "poseidon2") == 0 {
			c.Hash, c.Field = "poseidon2", "bls12-377"
		}
		f, _ := fieldOf(c.Field)
		c.Engine = genEngine(12).Draw(rt, "engine")
		n := rapid.IntRange(1, 4).Draw(rt, "challenges")
		c.Names = rapid.SliceOfNDistinct(rapid.StringMatching(`[a-zA-Z0-9]{1,8}`), n, n, rapid.ID[string]).Draw(rt, "names")
		for i := 0; i < n; i++ {
			c.Bindings = append(c.Bindings, rapid.SliceOfN(genElem(f.Q), 0, 4).Draw(rt, "bindings"))
			if c.Bindings[i] == nil {
				c.Bindings[i] = []string{}
			}
		}
		c.OneByOne = rapid.Bool().Draw(rt, "one-by-one")
		c.Recompute = rapid.Bool().Draw(rt, "recompute")
		rec.Begin("fs", c)
		rec.Report(rt, "fs", c, runFS(c))
		c.Tamper = rapid.IntRange(1, n).Draw(rt, "tamper")
		rec.Begin("fs", c)
		rec.Report(rt, "fs", c, runFS(c))
	})
}

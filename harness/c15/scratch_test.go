package c15

import (
	"crypto/sha256"
	"fmt"
	"testing"
	"time"

	"verifharness/lib/prog"

	"github.com/consensys/gnark-crypto/ecc"
	"github.com/consensys/gnark/frontend"
	"github.com/consensys/gnark/std/hash/sha2"
	"github.com/consensys/gnark/std/hash/sha3"
	"github.com/consensys/gnark/std/math/uints"
	"github.com/consensys/gnark/test"
	xsha3 "golang.org/x/crypto/sha3"
)

type scr struct {
	In       []uints.U8
	Expected []uints.U8
	k        int
}

func (c *scr) Define(api frontend.API) error {
	uapi, _ := uints.New[uints.U32](api)
	var res []uints.U8
	if c.k == 0 {
		h, _ := sha2.New(api)
		h.Write(c.In)
		res = h.Sum()
	} else {
		h, _ := sha3.New256(api)
		h.Write(c.In)
		res = h.Sum()
	}
	for i := range c.Expected {
		uapi.ByteAssertEq(c.Expected[i], res[i])
	}
	return nil
}

func TestScratch(t *testing.T) {
	for _, k := range []int{0, 1} {
		for _, l := range []int{0, 55, 64, 200, 400} {
			msg := make([]byte, l)
			var d []byte
			if k == 0 {
				x := sha256.Sum256(msg)
				d = x[:]
			} else {
				x := xsha3.Sum256(msg)
				d = x[:]
			}
			st := time.Now()
			err := test.IsSolved(&scr{In: make([]uints.U8, l), Expected: make([]uints.U8, 32), k: k}, &scr{In: uints.NewU8Array(msg), Expected: uints.NewU8Array(d)}, ecc.BN254.ScalarField())
			fmt.Println(k, l, err, time.Since(st))
			if l <= 64 {
				for _, b := range []string{prog.R1CS, prog.SCS} {
					st = time.Now()
					f := prog.FieldByName("bn254")
					sys, err := prog.Compile(f, b, &scr{In: make([]uints.U8, l), Expected: make([]uints.U8, 32), k: k})
					if err != nil {
						t.Fatal(err)
					}
					ct := time.Since(st)
					st = time.Now()
					w, _ := prog.Witness(f, &scr{In: uints.NewU8Array(msg), Expected: uints.NewU8Array(d)})
					_, err = prog.Solve(sys, w)
					fmt.Println("  ", b, sys.GetNbConstraints(), err, ct, time.Since(st))
				}
			}
		}
	}
}

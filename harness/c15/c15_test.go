// C15 — in-circuit hash functions equal their reference implementations for all messages.
//
// Oracles: crypto/sha256, golang.org/x/crypto/sha3, golang.org/x/crypto/ripemd160 for the
// byte-oriented gadgets; gnark-crypto's mimc / poseidon2 / merkletree / fiat-shamir packages
// for the field-oriented ones. Every case is checked in both directions: the reference digest
// must satisfy the circuit and a tampered digest (or an invalid Merkle proof) must not.
package c15

import (
	"crypto/sha256"
	"encoding/binary"
	"encoding/json"
	"fmt"
	"math/big"
	"strings"
	"sync"
	"testing"

	"verifharness/lib/ev"
	"verifharness/lib/prog"

	"github.com/consensys/gnark/logger"
	"github.com/consensys/gnark/std"
)

const ID = "C15"

func TestMain(m *testing.M) {
	logger.Disable()
	std.RegisterHints()
	ev.RegisterReplay("bin", func(raw json.RawMessage) string {
		var b BinBatch
		if err := json.Unmarshal(raw, &b); err != nil {
			return ""
		}
		return runBin(b).Violation
	})
	ev.RegisterReplay("field", func(raw json.RawMessage) string {
		var c FieldCase
		if err := json.Unmarshal(raw, &c); err != nil {
			return ""
		}
		return runField(c).Violation
	})
	ev.RegisterReplay("perm", func(raw json.RawMessage) string {
		var c PermCase
		if err := json.Unmarshal(raw, &c); err != nil {
			return ""
		}
		return runPerm(c).Violation
	})
	ev.RegisterReplay("merkle", func(raw json.RawMessage) string {
		var c MerkleCase
		if err := json.Unmarshal(raw, &c); err != nil {
			return ""
		}
		return runMerkle(c).Violation
	})
	ev.RegisterReplay("fs", func(raw json.RawMessage) string {
		var c FSCase
		if err := json.Unmarshal(raw, &c); err != nil {
			return ""
		}
		return runFS(c).Violation
	})
	ev.Main(m)
}

func TestReplay(t *testing.T) { ev.Replay(t) }

const rule = "bin: byte messages hashed in-circuit by sha256 / sha3-{256,384,512} / keccak-{256,512} / ripemd160 (Sum with a drawn Write chunking, or FixedLengthSum with declared max >= actual length >= WithMinimalLength) and compared byte by byte with crypto/sha256, x/crypto/sha3, x/crypto/ripemd160; lengths are enumerated 0..3*block+2 (sweeps) or drawn with a bias to block/padding boundaries; a tampered digest bit or a length below the declared minimum must make the circuit unsatisfiable. Executed in the test engine and, for boundary lengths, compiled and solved with the R1CS and SCS builders. " +
	"field: MiMC (7 curves) / Poseidon2-Merkle-Damgard (BLS12-377) scripts of Write/Sum/Reset/State-SetState against gnark-crypto; perm: Poseidon2 permutation width 2,3 on 7 curves against gnark-crypto; merkle: proofs of depth 1-8 (valid / wrong leaf / wrong sibling / wrong index / wrong root) accepted iff gnark-crypto's merkletree.VerifyProof accepts; fs: fiat-shamir transcripts with 1-4 challenges against gnark-crypto's transcript. " +
	"Non-trivial: bin - hashed length within 1 of a block or padding boundary, or more than one compression/permutation call, or FixedLengthSum with actual < declared; field - >=2 absorbed elements or a Reset/State op; perm - always (random state); merkle - depth >= 2 or an invalid variant; fs - >= 2 challenges or >= 1 binding. Distinct: SHA-256 of the case JSON (one item = one case)."

// ---- deterministic byte stream derived from the run seed -------------------------------

type prng struct {
	key [32]byte
	ctr uint64
	buf []byte
}

// newPRNG derives an independent stream from (VERIF_SEED, shard, label).
func newPRNG(label string) *prng {
	return &prng{key: sha256.Sum256([]byte(fmt.Sprintf("c15|%d|%d|%s", ev.Seed(), ev.Shard(), label)))}
}

func (p *prng) bytes(n int) []byte {
	for len(p.buf) < n {
		var c [8]byte
		binary.BigEndian.PutUint64(c[:], p.ctr)
		p.ctr++
		h := sha256.Sum256(append(p.key[:], c[:]...))
		p.buf = append(p.buf, h[:]...)
	}
	r := append([]byte(nil), p.buf[:n]...)
	p.buf = p.buf[n:]
	return r
}

func (p *prng) intn(n int) int {
	if n <= 1 {
		return 0
	}
	return int(binary.BigEndian.Uint64(p.bytes(8)) % uint64(n))
}

// expand derives n bytes from a seed (used where a case stores a seed instead of bulk data).
func expand(seed uint64, label string, n int) []byte {
	var out []byte
	for i := 0; len(out) < n; i++ {
		h := sha256.Sum256([]byte(fmt.Sprintf("c15-expand|%d|%s|%d", seed, label, i)))
		out = append(out, h[:]...)
	}
	return out[:n]
}

// ---- helpers -------------------------------------------------------------------------------

var curveNames = []string{"bn254", "bls12-377", "bls12-381", "bls24-315", "bls24-317", "bw6-633", "bw6-761"}

func fieldOf(name string) (f prog.Field, ok bool) {
	for _, c := range prog.Curves() {
		if c.Name == name {
			return c, true
		}
	}
	return prog.Field{}, false
}

// goPanic tells whether an error text is a Go runtime panic (index out of range, nil
// dereference …) as opposed to a failed assertion / unsatisfied constraint.
func goPanic(err error) bool {
	if err == nil {
		return false
	}
	s := err.Error()
	return strings.Contains(s, "runtime error") || strings.HasPrefix(s, "PANIC")
}

func short(err error) string {
	if err == nil {
		return "<nil>"
	}
	s := err.Error()
	if i := strings.Index(s, "\ngoroutine"); i > 0 {
		s = s[:i]
	}
	if len(s) > 900 {
		s = s[:900] + "…"
	}
	return s
}

func dec(x *big.Int) string { return x.Text(10) }

func parseDec(s string) *big.Int {
	x, ok := new(big.Int).SetString(s, 10)
	if !ok {
		return new(big.Int)
	}
	return x
}

func fill(x *big.Int, n int) []byte { return x.FillBytes(make([]byte, n)) }

// parallel runs f(0..n-1) on w workers and waits.
func parallel(n, w int, f func(i int)) {
	if w < 1 {
		w = 1
	}
	var wg sync.WaitGroup
	ch := make(chan int)
	for k := 0; k < w; k++ {
		wg.Add(1)
		go func() {
			defer wg.Done()
			for i := range ch {
				f(i)
			}
		}()
	}
	for i := 0; i < n; i++ {
		ch <- i
	}
	close(ch)
	wg.Wait()
}

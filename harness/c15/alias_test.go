package c15

import (
	"encoding/json"
	"fmt"
	"testing"

	"verifharness/lib/ev"

	"github.com/consensys/gnark-crypto/ecc"
	"github.com/consensys/gnark/frontend"
	"github.com/consensys/gnark/std/math/uints"
	"github.com/consensys/gnark/test"
)

// AliasCase: a hasher is given a SUB-SLICE of the caller's byte array (prefix of
// length Pre, the array has room behind it), summed, and then the bytes behind
// the prefix are hashed again (whole array, and the tail alone) by fresh hashers
// in the same circuit. A hasher that keeps and extends the caller's slice
// (padding written into its spare capacity) corrupts the caller's message: every
// digest must still equal the reference digest of the ORIGINAL bytes.
type AliasCase struct {
	Spec  string `json:"spec"`
	Total int    `json:"total"`
	Pre   int    `json:"pre"`
	Seed  int    `json:"seed"`
}

type aliasCircuit struct {
	Msg        []uints.U8
	D1, D2, D3 []uints.U8 `gnark:",public"`
	spec       *binSpec
	pre        int
}

func (c *aliasCircuit) Define(api frontend.API) error {
	uapi, err := uints.New[uints.U32](api)
	if err != nil {
		return err
	}
	eq := func(got, want []uints.U8) {
		for i := range want {
			uapi.ByteAssertEq(got[i], want[i])
		}
	}
	h1, err := c.spec.zk(api)
	if err != nil {
		return err
	}
	h1.Write(c.Msg[:c.pre]) // sub-slice with spare capacity behind it
	eq(h1.Sum(), c.D1)
	h2, err := c.spec.zk(api)
	if err != nil {
		return err
	}
	h2.Write(c.Msg)
	eq(h2.Sum(), c.D2)
	h3, err := c.spec.zk(api)
	if err != nil {
		return err
	}
	h3.Write(c.Msg[c.pre:])
	eq(h3.Sum(), c.D3)
	return nil
}

func runAlias(c AliasCase) ev.Outcome {
	s := specOf(c.Spec)
	if s == nil || c.Pre < 0 || c.Pre > c.Total {
		return ev.Outcome{Discard: true, DiscardWhy: "bad alias case"}
	}
	msg := make([]byte, c.Total)
	for i := range msg {
		msg[i] = byte(31*i + 7*c.Seed + 1)
	}
	ref := func(b []byte) []byte { h := s.ref(); h.Write(b); return h.Sum(nil) }
	circ := &aliasCircuit{Msg: make([]uints.U8, c.Total), D1: make([]uints.U8, s.size), D2: make([]uints.U8, s.size), D3: make([]uints.U8, s.size), spec: s, pre: c.Pre}
	asg := &aliasCircuit{Msg: uints.NewU8Array(msg), D1: uints.NewU8Array(ref(msg[:c.Pre])), D2: uints.NewU8Array(ref(msg)), D3: uints.NewU8Array(ref(msg[c.Pre:]))}
	var err error
	if pm := ev.Safely(func() { err = test.IsSolved(circ, asg, ecc.BN254.ScalarField()) }); pm != "" {
		err = fmt.Errorf("panic: %s", pm)
	}
	if err != nil {
		return ev.Outcome{Violation: fmt.Sprintf("[%s total=%d prefix=%d] hashing a prefix sub-slice, then the whole array and the tail: the reference digests of the original bytes are rejected: %v", c.Spec, c.Total, c.Pre, firstLineOf(err.Error()))}
	}
	return ev.Outcome{NonTrivial: true, Classes: []string{"alias:" + c.Spec, "alias-prefix-then-whole"}}
}

func firstLineOf(s string) string {
	for i := 0; i < len(s); i++ {
		if s[i] == '\n' {
			return s[:i]
		}
	}
	return s
}

func init() {
	ev.RegisterReplay("alias", func(raw json.RawMessage) string {
		var c AliasCase
		if err := json.Unmarshal(raw, &c); err != nil {
			return ""
		}
		return runAlias(c).Violation
	})
}

// TestCallerSliceNotDisturbed: deterministic sweep, every binary hasher.
func TestCallerSliceNotDisturbed(t *testing.T) {
	rec := ev.Get(ID)
	seed := int(ev.Seed())
	for _, s := range binSpecs {
		totals := []int{s.block + 32}
		if ev.Tier() == "thorough" {
			totals = append(totals, 2*s.block+5, 40)
		}
		for _, total := range totals {
			for _, pre := range []int{0, 1, 32, s.block - 9, s.block - 1, s.block} {
				if pre > total {
					continue
				}
				c := AliasCase{Spec: s.name, Total: total, Pre: pre, Seed: seed}
				rec.Begin("alias", c)
				rec.Report(t, "alias", c, runAlias(c))
			}
		}
	}
}

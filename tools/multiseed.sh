#!/bin/bash
# usage: tools/multiseed.sh "<seeds>" [check ids...]   — runs the quick tier of every check at each seed,
# prints one summary line per run; non-zero exit if any run did not exit 0.
cd "$(dirname "$0")/.."
SEEDS=${1:-"2 3 1"}; shift
CHECKS=${@:-C01 C02 C03 C04 C05 C06 C07 C08 C09 C10 C11 C12 C13 C14 C15 C16 C17 C18 C19 C20}
rc=0
for s in $SEEDS; do
  for c in $CHECKS; do
    out=$(VERIF_SEED=$s ./check $c --tier quick 2>&1); r=$?
    echo "seed=$s $c rc=$r $(echo "$out" | egrep '^(OK|VIOLATION|INCONCLUSIVE)' | head -3 | tr '\n' ' ' | cut -c1-300)"
    [ $r -ne 0 ] && { rc=1; echo "$out" | egrep -A2 '^(VIOLATION|INCONCLUSIVE)' | cut -c1-600 | head -12; }
  done
done
exit $rc

#!/usr/bin/env python3
"""Keeps the commit hashes of fixed findings in known_findings.json in step with
/repo's history (hashes change when a fix commit is amended): each fixed entry
names its commit by subject prefix ("subject"); this rewrites "commit" and the
hash inside "line". Never run by the checks."""
import json, subprocess, os, re
ROOT = os.path.dirname(os.path.dirname(os.path.abspath(__file__)))
p = os.path.join(ROOT, "known_findings.json")
d = json.load(open(p))
log = subprocess.check_output(["git", "-C", "/repo", "log", "--format=%h %s"]).decode().splitlines()
for f in d["findings"]:
    if f["status"] != "fixed":
        continue
    subj = f.get("subject")
    if not subj:
        # derive from the current hash if it still exists
        for l in log:
            if l.startswith(f["commit"] + " "):
                subj = l.split(" ", 1)[1]
        if not subj:
            print("cannot find commit for", f["id"], f["commit"]); continue
        f["subject"] = subj
    hit = [l for l in log if l.split(" ", 1)[1].startswith(subj)]
    if len(hit) != 1:
        print("ambiguous / missing subject for", f["id"], subj, len(hit)); continue
    h = hit[0].split()[0]
    if h != f["commit"]:
        f["line"] = f["line"].replace(f["commit"], h)
        f["commit"] = h
json.dump(d, open(p, "w"), indent=1)
print("ok")

#!/bin/bash
# usage: tools/ingest_seed.sh <worktree> <seed-name> <demo test regexp> [extra test packages...]
# Collects patch + demonstration from a seeding agent's worktree, and confirms:
# builds, demo FAILS with the change, demo PASSES without it, touched packages' tests pass.
set -u
WT=$1; NAME=$2; DEMO=$3; shift 3
ROOT=$(cd "$(dirname "$0")/.." && pwd)
D=$ROOT/seeded/$NAME
mkdir -p $D
export GOFLAGS=-mod=mod GOPROXY=off GOSUMDB=off GOTOOLCHAIN=local
cd $WT || exit 2
git diff > $D/patch.diff
for f in $(git ls-files --others --exclude-standard); do
  case $f in *_test.go) mkdir -p $D/demo/$(dirname $f); cp $f $D/demo/$f;; SEED_NOTES.md) cp $f $D/SEED_NOTES.md;; esac
done
echo "patch: $(grep -c '^diff' $D/patch.diff) files, $(grep -c '^[+-][^+-]' $D/patch.diff) changed lines"
go build ./... || { echo "BUILD FAILED"; exit 1; }
DEMOPKGS=$(cd $D/demo && find . -name '*_test.go' -printf '%h\n' | sort -u | sed 's|^\./||; s|^\.$||')
with=PASS; without=FAIL
for p in $DEMOPKGS ""; do
  [ -z "$p" ] && [ -n "$DEMOPKGS" ] && [ "$DEMOPKGS" != "" ] && [ "$p" != "$DEMOPKGS" ] && continue
  :
done
P=./$(cd $D/demo && find . -name '*_test.go' -printf '%h\n' | head -1 | sed 's|^\./||')
echo "demo package: $P"
go test -count=1 -timeout 1500s -run "$DEMO" $P > $D/demo_with_change.log 2>&1; rc1=$?
# NB: git stash is shared between worktrees of one repository: never use it here
git apply -R $D/patch.diff || { echo "cannot revert patch"; exit 2; }
go test -count=1 -timeout 1500s -run "$DEMO" $P > $D/demo_without_change.log 2>&1; rc2=$?
git apply $D/patch.diff || { echo "cannot re-apply patch"; exit 2; }
echo "demo with change: rc=$rc1 (want != 0); without change: rc=$rc2 (want 0)"
PKGS=$(git diff --name-only | grep '\.go$' | xargs -n1 dirname | sort -u | sed 's|^|./|')
echo "touched packages: $PKGS $*"
go test -count=1 -timeout 2400s -skip "$DEMO|TestVersion" $PKGS "$@" > $D/touched_tests.log 2>&1; rc3=$?
echo "tests of touched packages with change: rc=$rc3 (want 0)"; grep -E "^(FAIL|---)" $D/touched_tests.log | head -5
[ $rc1 -ne 0 ] && [ $rc2 -eq 0 ] && [ $rc3 -eq 0 ] && echo CONFIRMED || echo NOT-CONFIRMED

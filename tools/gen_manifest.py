#!/usr/bin/env python3
"""Generates /verif/MANIFEST.json from the table below (kept in one place so the
manifest stays valid and in step with the harness packages that exist)."""
import json, os

ROOT = os.path.dirname(os.path.dirname(os.path.abspath(__file__)))

# id -> (technique, level text, level note, design ref)
CHECKS = {
 "C04": ("property-based differential testing vs reference interpreter (rapid)",
         "Random straight-line programs over the whole frontend.API are compiled with both builders under several compression thresholds and const/public/secret labellings, solved, and compared with an independent big-integer interpreter written from the API documentation; a wrong claimed output must be rejected. Exploration, not proof: assurance is 'no divergence in N generated programs per field', N in the evidence file.",
         "Trusts the reference interpreter (lib/prog/eval.go) as the documented meaning; divisors that fold to the compile-time constant 0 are excluded (documented programmer error) and counted.",
         "DESIGN.md §3 C04"),
}

PENDING = {}

def main():
    props = [json.loads(l) for l in open(os.path.join(ROOT, "properties.jsonl"))]
    checks, na = [], []
    for p in props:
        pid = p["id"]
        if pid in CHECKS and os.path.isdir(os.path.join(ROOT, "harness", pid.lower())):
            tech, text, note, ref = CHECKS[pid]
            checks.append({
                "property_id": pid,
                "quick_cmd": "./check %s --tier quick" % pid,
                "thorough_cmd": "./check %s --tier thorough" % pid,
                "evidence_file": "/verif/evidence/%s.json" % pid,
                "replay_cmd_template": "./check %s --replay {path}" % pid,
                "engine": "harness",
                "level_claimed": {"category": "exploration", "text": text, "design_ref": ref},
                "level_note": note,
                "technique": tech,
            })
        else:
            na.append({"property_id": pid, "reason": PENDING.get(pid, "check not built yet (build in progress); property-based testing applies, see DESIGN.md §3 " + pid)})
    m = {
        "version": 1,
        "setup_cmd": "./check --build-all",
        "hooks": {
            "guard": "verif (Go build tag)",
            "enable": "go test -tags verif (the driver ./check builds every harness package with -tags verif against /repo through a replace directive)",
            "baseline_off_cmd": "tools/baseline_off.sh",
            "source_commits": ["bf57557"],
            "add_only": True,
        },
        "engines": [
            {"name": "harness", "path": "harness", "serves_properties": [c["property_id"] for c in checks],
             "kind_free_text": "Go module with rapid v1.3.0 property tests, one package per property, shared libs under harness/lib (program generator + reference interpreter, constraint evaluator, small-field CSP, hint adversary, artifact surgery, concurrent scenario runner); driver ./check builds from /repo's working tree, runs, merges evidence"},
        ],
        "checks": checks,
        "not_applicable": na,
        "notes": "All checks are generated-input searches against explicit oracles (see DESIGN.md). Known findings: known_findings.json. Exit codes: 0 held, 1 VIOLATION, 2 inconclusive (build failure, timeout, harness failure).",
    }
    with open(os.path.join(ROOT, "MANIFEST.json"), "w") as f:
        json.dump(m, f, indent=1)
        f.write("\n")
    print("claimed:", [c["property_id"] for c in checks], "not claimed:", len(na))

if __name__ == "__main__":
    main()

#!/usr/bin/env python3
"""Generates /verif/MANIFEST.json from the table below (kept in one place so the
manifest stays valid and in step with the harness packages that exist)."""
import json, os

ROOT = os.path.dirname(os.path.dirname(os.path.abspath(__file__)))

# id -> (technique, level text, level note, design ref)
CHECKS = {
 "C04": ("property-based differential testing vs reference interpreter (rapid)",
         "Random straight-line programs over the whole frontend.API are compiled with both builders under several compression thresholds and const/public/secret labellings, solved, and compared with an independent big-integer interpreter written from the API documentation; a wrong claimed output must be rejected. Exploration, not proof: assurance is 'no divergence in N generated programs per field', N in the evidence file.",
         "Trusts the reference interpreter (lib/prog/eval.go) as the documented meaning; divisors that fold to the compile-time constant 0 are excluded (documented programmer error) and counted.",
         "DESIGN.md §3 C04"),
 "C01": ("property-based metamorphic + adversarial-prover testing (rapid, verif hook)",
         "Random provable circuits (0-3 commitments) on all 7 curves are proved for real; the genuine (proof, public witness) pair is then edited (public inputs, every group element, commitment list incl. the forged surplus commitment, cofactor-torsion translates of every G1 element, re-decoded bytes) or re-produced by the real prover continued on a row-violating assignment injected through the verif hook; Verify must reject every variant, and accept the genuine pair; key invariants: the Pedersen keys of different commitments come from distinct trapdoors, and (recording hash) every commitment challenge is bound to the commitment and its committed public values. Exploration: finds logic holes (missing check, wrong binding, forgotten row), says nothing about hardness assumptions.",
         "Rejection oracle is sound up to negligible-probability coincidences; CommitmentPok of commitment-free proofs is not counted as a proof element; the dishonest prover needs the verif-tagged post-solve hook.",
         "DESIGN.md §3 C01"),
 "C02": ("property-based metamorphic + adversarial-prover testing; reference model of the verifying key with a known toxic value (rapid)",
         "A: as C01 for PLONK (public inputs, all commitments / openings / claimed values, BSB22 and claimed-value lists, consistent hash options, dishonest prover violating a gate, a copy constraint, a padding position or a public row); a recording challenge hash shows that the transcript absorbs the verifying-key digests, every public input and every prover message before each challenge. B: with an SRS of known tau every digest of the verifying key is compared with [P(tau)]G1 for selector and permutation polynomials rebuilt independently from the exported gates, and the exported permutation must tie all positions of one wire on one cycle and never join two wires (padding positions may only join wire 0).",
         "A: as C01. B: trusts the harness's reconstruction of the documented trace layout (placeholders, padding = wire 0); equality of digests at a single known tau (error probability n/p).",
         "DESIGN.md §3 C02"),
 "C13": ("property-based reference testing + hint adversary (rapid, exhaustive sweep on F47)",
         "Range checks (widths 1..bitlen+2, mixes that move the limb width, commit and bit-decomposition paths) and logderivlookup tables (all index patterns, zero queries) are compared with the integer predicate / table[index] on both builders, the test engine and 7 curves; a hint adversary forges limbs and multiplicities (incl. a two-pass attack that learns the commitment) and must never get an out-of-range value accepted; the shared commitment must contain every gadget's data.",
         "Lookup results (outputs of a solver instruction, not a hint) are not forged; log-derivative soundness error 1/p ignored (curve fields only for the adversary). Tables of three or more columns can only be built through the internal package std/internal/logderivarg (no public gadget does) and are out of reach of the harness module (seed c13e).",
         "DESIGN.md §3 C13"),
 "C03": ("property-based differential testing vs reference interpreter over the configuration product (rapid)",
         "Random provable programs biased to edge shapes, plus a deterministic sweep over EVERY small system size (2..17 rows, around 32 and 64) x 7 curves x {Groth16, PLONK} x consistent hash / statistical-ZK / solver-task options; the reference interpreter classifies the assignment: satisfying => Setup, Prove and Verify (two forms of the public witness) all succeed and a verifier with a different hash option rejects; non-satisfying => Prove returns an error, without panic; a prover goroutine that kills the process is attributed to the running case (crash breadcrumb).",
         "Interleavings of the internally concurrent provers are sampled (whatever the scheduler does in N runs), not enumerated; a prover that does not return is recognised by CPU time consumed (240 s for work that takes milliseconds) or by an idle process, never by the wall clock alone; a slow machine gives an inconclusive (discarded) case.",
         "DESIGN.md §3 C03"),
 "C06": ("validity predicate on every solver output + independent replay solver (rapid)",
         "Every Solve of generated programs and of wide level-parallel circuits (lookup tables, range checks, hints, specialised gates; both builders; task counts 1..512; systems restored from bytes) is re-evaluated independently: every exported row / gate / copy class on the returned solution, identical solutions across task counts, a Levels partition/dependency oracle derived from sequential semantics, and a harness-written sequential solver that must agree with Solve's verdict in both directions.",
         "Worker interleavings are sampled, not enumerated; systems whose hints draw randomness (commitments) are only checked by the validity predicate; the replay solver answers 'undetermined' (counted) when a row has more than one unknown.",
         "DESIGN.md §3 C06"),
 "C07": ("property-based testing against a reference model of the struct layout (rapid, reflect.StructOf)",
         "Circuit struct shapes are synthesised with reflect (nesting, arrays, slices, pointers, every tag combination, embedded structs, visibility conflicts) and assigned values of every accepted Go type; the generator's own plan of declared order and visibility decides the witness vector, the public-only witness, Witness.Public(), the input counts of both compiled systems, what each variable carries inside Define (pinned constants; exchanging two values must be noticed) and the binary / JSON round trips.",
         "The dynamic struct hangs under a fixed Shell{Body any} holder; embedded structs come from a small palette of named types; init-hook types (which reflect.StructOf cannot synthesise) are not generated.",
         "DESIGN.md §3 C07"),
 "C19": ("property-based differential testing + hint adversary on the GKR solve/prove hints (rapid)",
         "Random GKR topologies (add/mul/neg/sub and custom gates, fan-out, Series dependencies, 2^k instances) and the gkr-poseidon2 compression gadget (any number of calls, incl. non-powers of two) on both builders and the test engine: exported values must equal direct in-circuit evaluation; with GkrInfo detached and the genuine hints wrapped, 10 forgery kinds (altered outputs, proofs of another statement, altered proof elements, an adaptive attack that learns the first challenge) must all be unsatisfiable; every solve runs under a watchdog.",
         "Instance counts are 2..64 in the generators plus one 2048-instance dependency case (chunked solving hint); single-instance topologies do not compile on this tree (recorded as an observation, outside the property); a cheating sum-check prover is not built, so bugs only exploitable by fabricating round polynomials are out of reach.",
         "DESIGN.md §3 C19"),
 "C08": ("structure-aware mutation of genuine artifacts with a crash + structural oracle (rapid; native fuzzing in the thorough tier)",
         "Genuine proofs, keys and witnesses of generated circuits on all curves and both backends are mutated at the byte level (length prefixes, truncation at and inside every slot, garbage, bit flips, zeros; compressed and raw) and at the object level (lists resized / nil, witnesses of wrong length or field, headers disagreeing with the payload, two compensating edits such as k fewer commitments with k more public inputs); no call may panic, byte counts must stay within the input, and structurally inconsistent inputs must be reported as errors.",
         "Length prefixes are capped at payload/elemsize+64 because of open finding F05 (fatal out-of-memory inside gnark-crypto's decoders, probed in a memory-limited child process on every run); arbitrary byte strings are reached only through mutations of genuine encodings.",
         "DESIGN.md §3 C08"),
 "C14": ("exhaustive small-scope enumeration over F47 + boundary-biased property-based testing + hint adversary (rapid)",
         "Comparison (generic and bounded, every admissible bound), Mux/Map/Slice/Partition/Decoder, bitslice and uints gadgets are enumerated exhaustively over the 47-element field (test engine, R1CS, SCS) and sampled boundary-biased on curve fields against integer oracles written from the doc comments (including the bounded comparator's documented zones); out-of-domain selectors must be unsatisfiable where promised; every gadget hint is rewritten (flip, zero, rotate, alias, two-hot, ...) and no wrong public output may become satisfiable.",
         "uints has no per-method documentation: plain w-bit arithmetic on in-range inputs is assumed; a full CSP search over F47 is replaced by enumerating every value / one-hot / two-hot / step vector of the gadget hints.",
         "DESIGN.md §3 C14"),
 "C09": ("round-trip + differential property-based testing (rapid)",
         "For generated systems (all instruction kinds: generic / specialised gates, hints, lookup tables, range checks, emulated multiplication, commitments, logs), Groth16/PLONK keys (compressed, raw, raw+unsafe, memory dump), proofs and witnesses: reported byte count == bytes written == bytes consumed (with sentinel bytes after the encoding), re-encoding is byte-identical, the decoded system has the same levels / counts / commitment info and solves every witness to the same verdict and solution, and the full cross matrix {original, decoded} cs x pk x vk proves and verifies (a decoded vk still rejects a wrong public input); large systems (collections around 2^16 / 2^17 entries) round-trip too.",
         "Small-field systems have no exported empty-system factory and are not round-tripped; GKR metadata is covered only through C19's circuits, not here.",
         "DESIGN.md §3 C09"),
 "C10": ("differential testing of concurrent vs sequential execution in child processes (rapid scenarios; race detector in the thorough tier)",
         "Generated and directed scenarios share one compiled R1CS / sparse system (witness-dependent lookup table, commitment, hints), Groth16 and PLONK keys, proofs and the caller-owned option objects (a solver-option slice with spare capacity, one ProverOption value, one []ProverOption slice) among 2-8 goroutines making Solve / Prove / Verify calls with distinct satisfying and non-satisfying witnesses (wrong outputs and lookups outside the table, which fail inside an instruction) (also on a restored-from-bytes system, also while other circuits compile in the background); every concurrent call must return what it returned alone, a later sequential pass must still match, and the child must not crash, race or wedge.",
         "Interleavings are sampled by repetition x GOMAXPROCS values, not enumerated; there is no schedule control. A wedge is only declared when no call completed for 45 s and the process then sat idle (< 0.3 s CPU in 15 s), twice; a slow child is inconclusive. Assurance: no divergence in N repetitions and (thorough) a clean race-detector run.",
         "DESIGN.md §3 C10"),
 "C11": ("metamorphic property-based testing: repeated compilation must give identical bytes (rapid; child processes)",
         "Generated circuits using hints, commitments, lookup tables, range checks, emulated arithmetic, multicommit, nested deferred callbacks, Println and the sparse builder's wire-query interface (unused inputs, internal wires, distinct repeated constants) are compiled K times sequentially, in parallel goroutines while other circuits compile, and in fresh processes; the serialized constraint systems must be byte-identical, and keys of the first compilation must prove and verify with the K-th.",
         "'Every run and process' is sampled (K=12/40 repeats, 6 parallel, 2 processes); a map of >= 3 entries iterated in a rarely taken path can need more tries than K.",
         "DESIGN.md §3 C11"),
 "C15": ("differential property-based testing against reference hash implementations (rapid + length sweeps)",
         "In-circuit SHA-256, RIPEMD-160, SHA-3/Keccak (Sum and FixedLengthSum with declared / actual / minimal lengths, arbitrary Write chunkings), MiMC (7 curves, Reset, State/SetState), Poseidon2 (permutation, Merkle-Damgard), Merkle proofs and Fiat-Shamir transcripts are compared with crypto/sha256, x/crypto, gnark-crypto for every message length around every block and padding boundary; tampered digests and invalid Merkle proofs must be unsatisfiable; test engine for the sweeps, both builders for a subset.",
         "Quick tier sweeps lengths 0..block+2 plus every later boundary +-1 (full 0..3*block+2 in the thorough tier); the FixedLengthSum triangle covers boundary maxima only.",
         "DESIGN.md §3 C15"),
 "C05": ("exhaustive small-scope search (complete CSP over the 47-element field) + hint adversary over curve fields (rapid)",
         "For every unary / binary API operation, operand-kind pattern (every constant value), builder and input tuple over F47, a complete search over ALL internal wires and hint outputs enumerates the set of outputs for which the exported rows are satisfiable and compares it with the documented relation (unique output, none, or anything for the documented 0/0 quotient); random 1-3 op programs cover Select / Lookup2 / MulAcc / FromBinary and the boolean-marking elision; on curve fields the nBits / InvZero hints are rewritten (bits of a+p, flipped or non-boolean digits, arbitrary inverses) and a false claim must stay unsatisfiable.",
         "Quick tier samples the heavy operations (Cmp, AssertIsLessOrEqual, wide ToBinary) and is exhaustive in the thorough tier; searches that exceed the node budget are counted as inconclusive (variable-bound AssertIsLessOrEqual on the sparse builder for some tuples).",
         "DESIGN.md §3 C05"),
 "C12": ("model-based property testing of op sequences + hint adversary (rapid)",
         "Rapid-drawn op sequences over pools of emulated elements (7-9 parameter sets incl. two custom ones, 2-4 native fields, non-canonical and short operands, sequences that pump the overflow counter) are compared with a big-integer model: strict-reduction flags carried through Mux / Select / Lookup2 are attacked with non-canonical candidates at every position; every returned element must be congruent to the model and respect limb width = BitsPerLimb + tracked overflow (read by reflection), documented failures must be unsatisfiable; on compiled systems the multiplication / division / padding hints are rewritten (r+d, r+p with k-1, native-field wrap, shifted carries, too-wide limbs) and an incongruent result must never be accepted.",
         "Open finding F11 (carry limbs of the multiplication hint are not range checked: native-field wrap forgery) is probed on every run incl. a real Groth16 proof, printed as KNOWN-FINDING and excluded by a narrow signature.",
         "DESIGN.md §3 C12"),
 "C16": ("differential property-based testing against reference curve arithmetic / native verifiers + hint adversary (rapid, exceptional-input tables)",
         "Short-Weierstrass (emulated secp256k1, BN254, P-256, P-384, BLS12-381, BW6-761; native BLS12-377) and twisted-Edwards group operations, scalar and multi-scalar multiplication with and without complete arithmetic on exceptional points and scalars (incl. equal / opposite partial products of joint multiplications), ECDSA / EdDSA / ecrecover accept-sets against crypto/ecdsa and gnark-crypto (EdDSA incl. torsion components of every order in R and A on all 8 companion curves), pairing checks on true and false equations; on compiled circuits the GLV / fake-GLV decomposition and scalar-mul hints are rewritten and a wrong claimed point must be unsatisfiable.",
         "Twelve open findings (F24-F32, F39, F47, F48: unchecked zero sub-scalars, selector bypass, AddUnified exceptional case, non-terminating half-GCD hint, unsatisfiable small scalars, twisted-Edwards decomposition not bound, ECDSA x(R) not reduced, bandersnatch identity, accumulator meeting G for points in the small orbit of G, fixed-base P-256/P-384 collisions) are each probed on every run, printed as KNOWN-FINDING and excluded by exact shape; inputs outside a method's documented domain are not asserted.",
         "DESIGN.md §3 C16"),
 "C20": ("invariant checking over repeated proofs with captured wire values (rapid, verif hook)",
         "For generated circuits (0-3 commitments, low-entropy committed secrets) on all curves and both backends, M proofs of the same witness are made in one process while the verif hook captures the wire values of each solve: no blinded element may repeat across proofs, Groth16 Ar/Bs must differ from alpha+sum(w_i A_i) / beta+sum(w_i B_i) (non-zero, pairwise distinct, r != s via pairings), commitments must differ from the unmasked Pedersen / KZG commitment, and with a known toxic value PLONK's L,R,O,Z commitments and claimed values must differ from the unblinded ones recomputed from the captured columns.",
         "Inequalities that hold for every draw of the prover randomness but a negligible set: absent blinding, a reused nonce or a zero mask are caught with certainty; weak but non-repeating randomness is invisible; under the statistical-ZK option only distinctness of the quotient shards is asserted.",
         "DESIGN.md §3 C20"),
 "C18": ("metamorphic property-based testing of ceremony transcripts with byte-slot surgery (rapid, 7 typed curve adapters)",
         "Generated ceremonies (circuit with 0-3 commitments, domain 2..64, 1-4 contributions per phase, every contribution passed through WriteTo/ReadFrom) on all 7 curves: honest chains and their prefixes must verify, give identical keys on re-verification, and the sealed keys must prove, verify and reject a wrong public input; chains with one serialized group element replaced (other element, stale value, independent chain, multiple, infinity, generator, bit flip), whole vectors hybridised, a secret rescaled consistently, challenges altered, contributions swapped / dropped / duplicated / spliced, or verified against other commons / another circuit must be rejected. Every slot kind of both phases is covered (table in the evidence).",
         "The byte-slot layout is derived from the marshal code and validated by re-encoding; slice length prefixes are never edited (open finding F05); an emptied challenge is documented to be filled in by the verifier and nothing is asserted there.",
         "DESIGN.md §3 C18"),
 "C17": ("differential property-based testing: native verifier vs in-circuit verifier (rapid, typed surgery before assignment)",
         "For generated inner circuits (fixed shape per outer circuit) on 5 inner/outer pairings (two-chains and emulated), Groth16 and PLONK (single- and multi-proof entry points), the KZG multi-point gadget, fixed / witness / constant / switched keys, complete arithmetic and subgroup-check options: genuine, replayed, element-edited (incl. cofactor-torsion points on every proof element), pairwise-cancelling quotient shifts with a known toxic value, cross-key and key-switching triples are given to the native verifier (with the matching recursion options) and to the outer circuit (test engine; compiled solve for a subset); accept <=> satisfiable in both directions.",
         "The native verdict is the oracle; incomplete arithmetic is only asserted outside its documented exceptional inputs; emulated pairs get few cases in the quick tier; scalars near r-k are not generated (open finding F27).",
         "DESIGN.md §3 C17"),
}

PENDING = {}

def main():
    props = [json.loads(l) for l in open(os.path.join(ROOT, "properties.jsonl"))]
    checks, na = [], []
    for p in props:
        pid = p["id"]
        if pid in CHECKS and os.path.isdir(os.path.join(ROOT, "harness", pid.lower())):
            tech, text, note, ref = CHECKS[pid]
            checks.append({
                "property_id": pid,
                "quick_cmd": "./check %s --tier quick" % pid,
                "thorough_cmd": "./check %s --tier thorough" % pid,
                "evidence_file": "/verif/evidence/%s.json" % pid,
                "replay_cmd_template": "./check %s --replay {path}" % pid,
                "engine": "harness",
                "level_claimed": {"category": "exploration", "text": text, "design_ref": ref},
                "level_note": note,
                "technique": tech,
            })
        else:
            na.append({"property_id": pid, "reason": PENDING.get(pid, "check not built yet (build in progress); property-based testing applies, see DESIGN.md §3 " + pid)})
    m = {
        "version": 1,
        "setup_cmd": "./check --build-all",
        "hooks": {
            "guard": "verif (Go build tag)",
            "enable": "go test -tags verif (the driver ./check builds every harness package with -tags verif against /repo through a replace directive)",
            "baseline_off_cmd": "tools/baseline_off.sh",
            "source_commits": ["bf57557"],
            "add_only": True,
        },
        "engines": [
            {"name": "harness", "path": "harness", "serves_properties": [c["property_id"] for c in checks],
             "kind_free_text": "Go module with rapid v1.3.0 property tests, one package per property, shared libs under harness/lib (program generator + reference interpreter, constraint evaluator, small-field CSP, hint adversary, artifact surgery, concurrent scenario runner); driver ./check builds from /repo's working tree, runs, merges evidence"},
        ],
        "checks": checks,
        "not_applicable": na,
        "notes": "All checks are generated-input searches against explicit oracles (see DESIGN.md). Known findings: known_findings.json. Every check also re-runs the committed regression corpus regress/<ID>/ (shrunk failing cases of seeded changes and fixed defects). Exit codes: 0 held, 1 VIOLATION, 2 inconclusive (build failure, timeout, harness failure).",
    }
    with open(os.path.join(ROOT, "MANIFEST.json"), "w") as f:
        json.dump(m, f, indent=1)
        f.write("\n")
    print("claimed:", [c["property_id"] for c in checks], "not claimed:", len(na))

if __name__ == "__main__":
    main()

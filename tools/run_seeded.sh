#!/bin/bash
# Runs the quick checks named in seeded/<id>/meta.json ("checks") against a
# scratch copy of /repo with seeded/<id>/patch.diff applied (VERIF_REPO mode:
# /repo itself, evidence/ and replay/ are not touched).
# usage: tools/run_seeded.sh <seed-id> [check ids...]
set -u
ID=$1; shift
ROOT=$(cd "$(dirname "$0")/.." && pwd)
D=$ROOT/seeded/$ID
S=/tmp/gnark-seeded-$ID-$$
rsync -a --exclude .git /repo/ $S/ || exit 2
(cd $S && patch -p1 -s < $D/patch.diff) || { echo "patch does not apply"; rm -rf $S; exit 2; }
CHECKS="$@"
[ -z "$CHECKS" ] && CHECKS=$(python3 -c "import json;print(' '.join(json.load(open('$D/meta.json'))['checks']))")
rc=0
for c in $CHECKS; do
  echo "== $ID vs $c"
  VERIF_REPO=$S $ROOT/check $c --tier quick | egrep "^(OK|VIOLATION|INCONCLUSIVE|  kind)" | cut -c1-400
  [ ${PIPESTATUS[0]} -ne 0 ] && rc=1
done
rm -rf $S
# binaries and mod files built against the scratch copy
rm -f $ROOT/.bin/*.alt*.test; rm -rf $ROOT/.tmp/alt-[0-9a-f][0-9a-f][0-9a-f][0-9a-f][0-9a-f][0-9a-f][0-9a-f][0-9a-f]
exit $rc

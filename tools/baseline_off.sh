#!/bin/bash
# Runs gnark's pinned test suite with the 'verif' guard OFF and compares the
# result with /root/.vp/BASELINE.json (every stable_pass test must pass).
# usage: tools/baseline_off.sh [outdir]
set -u
OUT=${1:-/tmp/gnark-baseline-$$}
mkdir -p "$OUT"
export GOFLAGS=-mod=mod GOPROXY=off GOSUMDB=off GOTOOLCHAIN=local
cd /repo || exit 2
go test -mod=mod -json -vet=off -count=1 -timeout 25m ./... > "$OUT/gotest.json" 2> "$OUT/stderr.txt"
python3 - "$OUT/gotest.json" <<'PY'
import json, sys
base = json.load(open('/root/.vp/BASELINE.json'))
want = set(base['stable_pass'])
res = {}
for line in open(sys.argv[1], errors='replace'):
    line = line.strip()
    if not line.startswith('{'):
        continue
    try:
        e = json.loads(line)
    except Exception:
        continue
    if e.get('Test') and e.get('Action') in ('pass', 'fail', 'skip'):
        res[e['Package'] + '::' + e['Test']] = e['Action']
missing = sorted(t for t in want if res.get(t) != 'pass')
extra_fail = sorted(t for t, a in res.items() if a == 'fail' and t not in want)
print('baseline tests: %d, passed now: %d, not passing: %d, other failures: %d' % (len(want), len(want) - len(missing), len(missing), len(extra_fail)))
for t in missing[:50]:
    print('NOT PASSING', t, res.get(t))
for t in extra_fail[:20]:
    print('OTHER FAIL', t)
sys.exit(1 if missing else 0)
PY
rc=$?
git -C /repo status --short | head
exit $rc
